package main

import (
	"regexp"
	"bufio"
	"fmt"
	"go/token"
	"go/types"
	"os"
	"path/filepath"
	"sort"
	"strings"

	"golang.org/x/tools/go/packages"
	"golang.org/x/tools/go/ssa"
	"golang.org/x/tools/go/ssa/ssautil"
)

type SpecSig struct {
	Name string
	Args []string
	Res  string
	File string
}

type Engine struct {
	repo       string
	verif      string
	fset       *token.FileSet
	prog       *ssa.Program
	lpkgs      map[string]*packages.Package
	specs      map[string]*PkgSpec
	trusted    *PkgSpec
	specSigs   map[string]*SpecSig
	hintPreds  map[string]bool // spec predicates that are true of all arguments (unfold / shift / locality triggers)
	specFiles  map[string]string
	specDeps   map[string][]string
	binds      map[string]string
	keySorts   map[string]string
	heapInit   map[string]func(vc *VC, name string)
	globalInit map[string]func(vc *VC, name string)
	effects    map[*ssa.Function]*modSet
	modKeys    map[*ssa.Function]map[string]bool
	typeTags   map[string]int
	globIdx    map[*ssa.Global]int
	nglob      int
	assumptions map[string]bool
	ghosts     map[string]GhostField // "pkg.Type.field"
	immut      map[*ssa.Global]error
	gconsts    map[*ssa.Global]*globalConst
	mapTables  map[*ssa.Global]*mapTable
	tableGlobals map[string]*ssa.Global
	tableNames   map[*ssa.Global]string
	funcsCache []*ssa.Function
}

func (e *Engine) immutable(g *ssa.Global) error {
	if err, ok := e.immut[g]; ok {
		return err
	}
	err := e.checkImmutableGlobal(g)
	e.immut[g] = err
	return err
}

func (e *Engine) noteAssumption(s string) { e.assumptions[s] = true }

func (e *Engine) globalIndex(g *ssa.Global) int {
	if i, ok := e.globIdx[g]; ok {
		return i
	}
	i := len(e.globIdx) + 1
	e.globIdx[g] = i
	return i
}

func (e *Engine) typeTag(t types.Type) int {
	return e.typeTagNamed(types.TypeString(t, nil))
}

func (e *Engine) typeTagNamed(k string) int {
	if i, ok := e.typeTags[k]; ok {
		return i
	}
	i := len(e.typeTags) + 1
	e.typeTags[k] = i
	return i
}

func (e *Engine) inScope(fn *ssa.Function) bool {
	if fn.Pkg == nil {
		return false
	}
	return strings.HasPrefix(fn.Pkg.Pkg.Path(), "rcproxy")
}

func (e *Engine) ghostKey(t types.Type, field string) (string, bool) {
	k := structName(t) + "." + field
	if g, ok := e.ghosts[k]; ok {
		key := "F:" + k
		s, _ := specSortName(g.Sort)
		if s == "" {
			s = g.Sort
		}
		e.keySorts[key] = arrSort(SInt, s)
		return key, true
	}
	return "", false
}

func loadEngine(repo, verif string) (*Engine, error) {
	e := &Engine{repo: repo, verif: verif, lpkgs: map[string]*packages.Package{}, specs: map[string]*PkgSpec{},
		specSigs: map[string]*SpecSig{}, specFiles: map[string]string{}, specDeps: map[string][]string{}, binds: map[string]string{},
		keySorts: map[string]string{}, heapInit: map[string]func(*VC, string){}, globalInit: map[string]func(*VC, string){},
		effects: map[*ssa.Function]*modSet{}, modKeys: map[*ssa.Function]map[string]bool{}, typeTags: map[string]int{},
		globIdx: map[*ssa.Global]int{}, assumptions: map[string]bool{}, ghosts: map[string]GhostField{}, immut: map[*ssa.Global]error{}, gconsts: map[*ssa.Global]*globalConst{}, mapTables: map[*ssa.Global]*mapTable{}, tableGlobals: map[string]*ssa.Global{}, tableNames: map[*ssa.Global]string{}}
	cfg := &packages.Config{Mode: packages.LoadSyntax, Dir: repo, BuildFlags: []string{"-tags=verif"},
		Env: append(os.Environ(), "GOFLAGS=-mod=mod", "GOPROXY=off", "GOSUMDB=off", "GOTOOLCHAIN=local")}
	pkgs, err := packages.Load(cfg, "rcproxy/core/...")
	if err != nil {
		return nil, err
	}
	var errs []string
	packages.Visit(pkgs, nil, func(p *packages.Package) {
		for _, er := range p.Errors {
			errs = append(errs, er.Error())
		}
	})
	if len(errs) > 0 {
		return nil, fmt.Errorf("package errors: %s", strings.Join(errs, "; "))
	}
	e.fset = pkgs[0].Fset
	prog, _ := ssautil.Packages(pkgs, ssa.NaiveForm|ssa.GlobalDebug)
	prog.Build()
	e.prog = prog
	for _, p := range pkgs {
		e.lpkgs[p.PkgPath] = p
		if len(p.GoFiles) == 0 {
			continue
		}
		dir := filepath.Dir(p.GoFiles[0])
		ps, err := loadPkgSpecs(dir, p.PkgPath)
		if err != nil {
			return nil, err
		}
		e.specs[p.PkgPath] = ps
		for k, v := range ps.Binds {
			e.binds[k] = v
		}
		for _, g := range ps.Ghosts {
			if strings.Contains(g.Type, ".") || strings.Contains(g.Type, "/") {
				e.ghosts[g.Type+"."+g.Field] = g
			} else {
				e.ghosts[p.PkgPath+"."+g.Type+"."+g.Field] = g
			}
		}
	}
	e.registerMapTables()
	e.trusted, err = loadTrustedSpecs(filepath.Join(verif, "spec", "trusted"))
	if err != nil {
		return nil, err
	}
	for k, v := range e.trusted.Binds {
		e.binds[k] = v
	}
	for _, g := range e.trusted.Ghosts {
		e.ghosts[g.Type+"."+g.Field] = g
	}
	if err := e.loadSpecFiles(filepath.Join(verif, "spec", "smt")); err != nil {
		return nil, err
	}
	// every contract in a package's contract file must name a function of that package (a contract that
	// silently attaches to nothing would be a vacuity hole); `check` reports these per property as well
	var unknown []string
	for _, ps := range e.specs {
		for _, fs := range ps.Funcs {
			if fs.Trusted && e.findFunc(ps, fs) == nil {
				unknown = append(unknown, ps.PkgPath+"."+fs.Name)
			}
		}
	}
	if len(unknown) > 0 {
		sort.Strings(unknown)
		return nil, fmt.Errorf("trusted contract(s) name no function of their package (put contracts of other packages in spec/trusted): %s", strings.Join(unknown, ", "))
	}
	return e, nil
}

// loadSpecFiles reads /verif/spec/smt/*.smt2; `; sig f : A B -> C` lines declare spec functions
// usable in contracts, `; needs x y` declares dependencies on other spec files.
func (e *Engine) loadSpecFiles(dir string) error {
	files, _ := filepath.Glob(filepath.Join(dir, "*.smt2"))
	sort.Strings(files)
	for _, f := range files {
		name := strings.TrimSuffix(filepath.Base(f), ".smt2")
		b, err := os.ReadFile(f)
		if err != nil {
			return err
		}
		e.specFiles[name] = string(b)
		// hint predicates: `(forall (...) (! (and (NAME v1 .. vn) ...) ...))` makes NAME true of all arguments
		for _, m := range hintAxiomRe.FindAllStringSubmatch(string(b), -1) {
			if e.hintPreds == nil {
				e.hintPreds = map[string]bool{}
			}
			e.hintPreds[m[1]] = true
		}
		sc := bufio.NewScanner(strings.NewReader(string(b)))
		sc.Buffer(make([]byte, 1<<20), 1<<22)
		for sc.Scan() {
			line := strings.TrimSpace(sc.Text())
			if strings.HasPrefix(line, "; needs ") {
				e.specDeps[name] = append(e.specDeps[name], strings.Fields(line[len("; needs "):])...)
			}
			if !strings.HasPrefix(line, "; sig ") {
				continue
			}
			rest := line[len("; sig "):]
			parts := strings.SplitN(rest, ":", 2)
			if len(parts) != 2 {
				return fmt.Errorf("%s: bad sig line %q", f, line)
			}
			fn := strings.TrimSpace(parts[0])
			lr := strings.SplitN(parts[1], "->", 2)
			if len(lr) != 2 {
				return fmt.Errorf("%s: bad sig line %q", f, line)
			}
			sig := &SpecSig{Name: fn, File: name, Res: normSort(strings.TrimSpace(lr[1]))}
			for _, a := range splitSorts(strings.TrimSpace(lr[0])) {
				sig.Args = append(sig.Args, normSort(a))
			}
			e.specSigs[fn] = sig
		}
	}
	return nil
}

var hintAxiomRe = regexp.MustCompile(`\(!\s*\(and\s*\(([^\s()]+)((?:\s+[A-Za-z_][A-Za-z0-9_]*)+)\)`)

// hoistHints returns the ground applications of hint predicates occurring in goal. A hint predicate holds of all
// arguments (its axiom says so), so asserting an application is sound; it is done because a solver that tracks
// relevancy does not instantiate the axiom for a trigger term sitting in a literal of the negated goal that it has
// not chosen to satisfy.
func (e *Engine) hoistHints(goal string) []string {
	var out []string
	seen := map[string]bool{}
	for name := range e.hintPreds {
		pat := "(" + name + " "
		for from := 0; ; {
			i := strings.Index(goal[from:], pat)
			if i < 0 {
				break
			}
			i += from
			depth, j := 0, i
			for ; j < len(goal); j++ {
				if goal[j] == '(' {
					depth++
				} else if goal[j] == ')' {
					depth--
					if depth == 0 {
						break
					}
				}
			}
			term := goal[i : j+1]
			from = i + len(pat)
			if boundVarRe.MatchString(term) || seen[term] {
				continue
			}
			seen[term] = true
			out = append(out, term)
		}
	}
	sort.Strings(out)
	return out
}

var boundVarRe = regexp.MustCompile(`!b[0-9]+`)

func normSort(s string) string {
	if n, ok := specSortName(s); ok {
		return n
	}
	switch s {
	case "Slice":
		return SSlice
	case "ByteArr":
		return arrSort(SInt, bvSort(8))
	}
	return s
}

func splitSorts(s string) []string {
	var out []string
	depth := 0
	start := -1
	for i, c := range s {
		switch {
		case c == '(':
			if depth == 0 && start < 0 {
				start = i
			}
			depth++
		case c == ')':
			depth--
			if depth == 0 {
				out = append(out, s[start:i+1])
				start = -1
			}
		case c == ' ' || c == '\t':
			if depth == 0 && start >= 0 {
				out = append(out, s[start:i])
				start = -1
			}
		default:
			if start < 0 {
				start = i
			}
		}
	}
	if start >= 0 {
		out = append(out, s[start:])
	}
	return out
}

// resolveInvoke maps an interface method call to a concrete method via `bind` declarations.
func (e *Engine) resolveInvoke(c *ssa.CallCommon) *ssa.Function {
	it := c.Value.Type()
	name := ""
	if n := namedOf(it); n != nil {
		name = n.Obj().Name()
		if n.Obj().Pkg() != nil {
			if b, ok := e.binds[n.Obj().Pkg().Name()+"."+name]; ok {
				return e.lookupMethod(b, c.Method.Name())
			}
		}
	}
	if b, ok := e.binds[name]; ok {
		return e.lookupMethod(b, c.Method.Name())
	}
	// external interface method (error.Error, io.Writer...): no body and no contract
	return nil
}

// boundType returns the concrete type string an interface type is bound to ("" if none).
func (e *Engine) boundType(it types.Type) string {
	n := namedOf(it)
	if n == nil {
		return ""
	}
	if n.Obj().Pkg() != nil {
		if b, ok := e.binds[n.Obj().Pkg().Name()+"."+n.Obj().Name()]; ok {
			return b
		}
	}
	return e.binds[n.Obj().Name()]
}

// lookupMethod finds (*pkg.Type).method given "pkgpath.Type" or "*pkgpath.Type".
func (e *Engine) lookupMethod(typ, method string) *ssa.Function {
	typ = strings.TrimPrefix(typ, "*")
	i := strings.LastIndex(typ, ".")
	if i < 0 {
		return nil
	}
	pkgPath, tname := typ[:i], typ[i+1:]
	for _, p := range e.prog.AllPackages() {
		if p.Pkg.Path() != pkgPath {
			continue
		}
		tn, ok := p.Members[tname].(*ssa.Type)
		if !ok {
			return nil
		}
		pt := types.NewPointer(tn.Type())
		sel := e.prog.MethodSets.MethodSet(pt).Lookup(p.Pkg, method)
		if sel == nil {
			return nil
		}
		return e.prog.MethodValue(sel)
	}
	return nil
}

// resolveDynamic handles calls through function-typed fields bound with `bind Type.field = pkg.Func`.
func (e *Engine) resolveDynamic(c *ssa.CallCommon) *ssa.Function {
	u, ok := c.Value.(*ssa.UnOp)
	if !ok {
		return nil
	}
	fa, ok := u.X.(*ssa.FieldAddr)
	if !ok {
		return nil
	}
	pt := fa.X.Type().Underlying().(*types.Pointer).Elem()
	stt := pt.Underlying().(*types.Struct)
	n := namedOf(pt)
	if n == nil {
		return nil
	}
	key := n.Obj().Name() + "." + stt.Field(fa.Field).Name()
	b, ok := e.binds[key]
	if !ok {
		return nil
	}
	// "pkgpath.Type.method" or "pkgpath.func"
	i := strings.LastIndex(b, ".")
	if f := e.lookupMethod(b[:i], b[i+1:]); f != nil {
		return f
	}
	for _, p := range e.prog.AllPackages() {
		if p.Pkg.Path() == b[:i] {
			if f, ok := p.Members[b[i+1:]].(*ssa.Function); ok {
				return f
			}
		}
	}
	return nil
}

// findFunc locates the ssa function for a FuncSpec.
func (e *Engine) findFunc(ps *PkgSpec, fs *FuncSpec) *ssa.Function {
	var sp *ssa.Package
	for _, p := range e.prog.AllPackages() {
		if p.Pkg.Path() == ps.PkgPath {
			sp = p
		}
	}
	if sp == nil {
		return nil
	}
	if j := strings.Index(fs.Name, "$"); j >= 0 {
		// T.m$k : the k-th function literal of T.m (go/ssa numbering)
		var k int
		if _, err := fmt.Sscanf(fs.Name[j+1:], "%d", &k); err != nil || k < 1 {
			return nil
		}
		base := *fs
		base.Name = fs.Name[:j]
		parent := e.findFunc(ps, &base)
		if parent == nil || k > len(parent.AnonFuncs) {
			return nil
		}
		return parent.AnonFuncs[k-1]
	}
	if i := strings.Index(fs.Name, "."); i >= 0 {
		tname, m := fs.Name[:i], fs.Name[i+1:]
		tn, ok := sp.Members[tname].(*ssa.Type)
		if !ok {
			return nil
		}
		for _, t := range []types.Type{types.NewPointer(tn.Type()), tn.Type()} {
			if sel := e.prog.MethodSets.MethodSet(t).Lookup(sp.Pkg, m); sel != nil {
				f := e.prog.MethodValue(sel)
				if f != nil && f.Synthetic == "" {
					return f
				}
				if f != nil {
					// wrapper for value receiver: find the declared one
					if obj, ok := sel.Obj().(*types.Func); ok {
						return e.prog.FuncValue(obj)
					}
				}
			}
		}
		return nil
	}
	f, _ := sp.Members[fs.Name].(*ssa.Function)
	return f
}

// ---------- top-level verification of one function ----------

func (e *Engine) newVC(fn *ssa.Function, spec *FuncSpec) *VC {
	vc := &VC{eng: e, fn: fn, spec: spec, declared: map[string]bool{}, uses: map[string]bool{}, trusted: map[string]bool{},
		strlits: map[string]Term{}, kindCnt: map[string]int{}, fldKinds: map[string]int{}}
	for _, u := range spec.Uses {
		vc.uses[u] = true
	}
	vc.regKey("ALLOC", SInt)
	return vc
}

func (vc *VC) inputTermsFor(name string, t Term) {
	switch t.Sort {
	case SStr:
		vc.inputs = append(vc.inputs, "(s_len "+t.S+")")
		for i := 0; i < 24; i++ {
			vc.inputs = append(vc.inputs, fmt.Sprintf("(s_at %s %d)", t.S, i))
		}
	case SSlice:
		vc.inputs = append(vc.inputs, "(sl.base "+t.S+")", "(sl.off "+t.S+")", "(sl.len "+t.S+")", "(sl.cap "+t.S+")")
		if t.T != nil {
			if sl, ok := t.T.Underlying().(*types.Slice); ok {
				if es := vc.sortOf(sl.Elem()); es == bvSort(8) && canonType(sl.Elem()) == "uint8" {
					key := vc.memKey(sl.Elem())
					name := q("H0 " + key)
					if vc.declared[name] {
						for i := 0; i < 24; i++ {
							vc.inputs = append(vc.inputs, fmt.Sprintf("(select (select %s (sl.base %s)) (+ (sl.off %s) %d))", name, t.S, t.S, i))
						}
					}
				}
			}
		}
	default:
		vc.inputs = append(vc.inputs, t.S)
	}
}

func (e *Engine) verifyFunc(fn *ssa.Function, spec *FuncSpec) (vc *VC, err error) {
	vc = e.newVC(fn, spec)
	defer func() {
		if r := recover(); r != nil {
			if u, ok := r.(unsupported); ok {
				err = fmt.Errorf("%s: outside the verified subset: %s (near %s)", fn, u.msg, vc.posStr(token.NoPos))
				return
			}
			panic(r)
		}
	}()
	st := newState()
	vc.heapGet(st, "ALLOC")
	var args []Term
	var paramTerms []Term
	for _, p := range fn.Params {
		s := vc.sortOf(p.Type())
		n := vc.fresh("p_"+p.Name(), s)
		vc.assumeAllocated(st, p.Type(), n)
		t := Term{S: n, Sort: s, T: p.Type()}
		args = append(args, t)
		paramTerms = append(paramTerms, t)
	}
	fr := vc.newFrame(fn, spec, 0)
	fr.top = true
	env := &Env{vc: vc, vars: map[string]Term{}, cur: st, old: st, pkg: fn.Pkg}
	for i, p := range fn.Params {
		env.vars[p.Name()] = args[i]
	}
	// a function literal: each captured variable is a cell (non-nil, allocated before the call) whose current content the
	// contract names by the variable's name
	for _, fv := range fn.FreeVars {
		n := vc.fresh("fv_"+fv.Name(), SInt)
		vc.emit("(assert (not (= " + n + " 0)))")
		vc.assumeAllocated(st, fv.Type(), n)
		fr.vals[fv] = Sym{T: Term{S: n, Sort: SInt, T: fv.Type()}}
		if t, ok := vc.freeVarValue(fr, st, fv.Name()); ok {
			env.vars[fv.Name()] = t
		}
	}
	if fn.Signature.Recv() != nil {
		if _, isPtr := fn.Signature.Recv().Type().Underlying().(*types.Pointer); isPtr {
			vc.emit("(assert (not (= " + args[0].S + " 0)))")
		}
	}
	for _, rq := range spec.Requires {
		vc.assume("true", vc.evalBool(env, rq.Expr))
	}
	vc.cover("requires", "true")
	// frame targets are evaluated in the entry state
	var targets []modTarget
	if spec.HasModifies {
		targets = vc.modTargets(env, spec)
	}
	res, out, opc := vc.execFunc(fr, args, st, "true")
	for _, as := range spec.Asserts {
		if as.Callee != "" && !fr.matched[as] {
			vc.unsup("contract clause refers to call %s#%d, which %s does not make: %s", as.Callee, as.Ordinal, fn, as.Cl.Src)
		}
	}
	_ = res
	_ = out
	// postconditions and frame are checked at every return separately (simpler queries than on the merged exit state)
	for k, rt := range fr.rets {
		// vacuity guard: a return the contract does not declare unreachable must be reachable under the
		// assumptions made on the way to it (a contradictory callee contract would make it "verify")
		if spec.DeadReturns[k] {
			vc.oblige("unreachable", fmt.Sprintf("return~%d", k), rt.pc, "false", rt.pos, fmt.Sprintf("return %d declared unreachable", k))
		} else if rt.pc != "false" {
			vc.cover(fmt.Sprintf("return~%d", k), rt.pc)
			vc.covers[len(vc.covers)-1].Where = vc.eng.prog.Fset.Position(rt.pos).String()
		}
		env2 := &Env{vc: vc, vars: withNamedResults(env.vars, fn.Signature.Results(), rt.vals), cur: rt.st, old: fr.entry, pkg: fn.Pkg, results: rt.vals, fr: fr}
		// each postcondition may use the ones listed before it (they are proved separately for the same state)
		// ... but only those that are checked in every property check in which this one is checked: a clause tagged
		// for some properties only (label@Cxx,Cyy) is not available to a clause that also counts for other properties,
		// otherwise a change breaking both would be reported by the other property's check alone
		var proved []string
		var provedTags []map[string]bool
		for i, en := range spec.Ensures {
			lab := en.Label
			if lab == "" {
				lab = fmt.Sprint(i)
			}
			if spec.ImplCheck && !strings.HasPrefix(lab, "impl.") {
				// assumed part of a contract whose body is only checked for its `impl.` clauses
				continue
			}
			g := vc.evalBool(env2, en.Expr)
			mine := labelTags(lab)
			var usable []string
			for j, pj := range proved {
				if tagsCover(provedTags[j], mine) {
					usable = append(usable, pj)
				}
			}
			vc.oblige("ensures", lab, rt.pc, mkImp(mkAnd(usable...), g), fn.Pos(), en.Src)
			proved = append(proved, vc.define("ens", SBool, g))
			provedTags = append(provedTags, mine)
		}
		if (spec.HasModifies || spec.Pure) && !spec.ImplCheck {
			vc.frameObligations(fr, rt.st, rt.pc, targets)
		}
	}
	if opc != "false" {
		vc.cover("return", opc)
	}
	for i, p := range fn.Params {
		vc.inputTermsFor(p.Name(), paramTerms[i])
	}
	return vc, nil
}

func (vc *VC) frameObligations(fr *Frame, out *State, opc string, targets []modTarget) {
	byKey := map[string][]modTarget{}
	for _, t := range targets {
		byKey[t.key] = append(byKey[t.key], t)
	}
	var keys []string
	for k := range out.heap {
		keys = append(keys, k)
	}
	sort.Strings(keys)
	alloc0 := q("H0 ALLOC")
	for _, k := range keys {
		if k == "ALLOC" || strings.HasPrefix(k, "RV:") {
			continue
		}
		cur := out.heap[k]
		old := vc.heapGet(fr.entry, k)
		if cur.S == old.S {
			continue
		}
		ts := byKey[k]
		whole := false
		for _, t := range ts {
			if t.whole {
				whole = true
			}
		}
		if whole {
			continue
		}
		label := strings.NewReplacer(" ", "", "(", "", ")", "").Replace(k)
		switch {
		case strings.HasPrefix(k, "G:"):
			vc.oblige("frame", label, opc, mkEq(cur.S, old.S), fr.fn.Pos(), "global "+k+" not in modifies")
		case strings.HasPrefix(k, "M:"):
			r := vc.fresh("fr_r", SInt)
			j := vc.fresh("fr_j", SInt)
			hyp := []string{"(< (rootof " + r + ") " + alloc0 + ")"}
			for _, t := range ts {
				if t.lo == "" {
					hyp = append(hyp, "(not (= "+r+" "+t.ref+"))")
				} else {
					hyp = append(hyp, fmt.Sprintf("(not (and (= %s %s) (<= %s %s) (< %s %s)))", r, t.ref, t.lo, j, j, t.hi))
				}
			}
			goal := mkImp(mkAnd(hyp...), mkEq(sel(sel(cur.S, r), j), sel(sel(old.S, r), j)))
			vc.oblige("frame", label, opc, goal, fr.fn.Pos(), "memory "+k+" outside modifies unchanged")
		default:
			r := vc.fresh("fr_r", SInt)
			hyp := []string{"(< (rootof " + r + ") " + alloc0 + ")"}
			for _, t := range ts {
				hyp = append(hyp, "(not (= "+r+" "+t.ref+"))")
			}
			goal := mkImp(mkAnd(hyp...), mkEq(sel(cur.S, r), sel(old.S, r)))
			vc.oblige("frame", label, opc, goal, fr.fn.Pos(), "heap "+k+" outside modifies unchanged")
		}
	}
}

// registerMapTables makes <fname>_has/<fname>_val of every `table` declaration on a map variable
// available to contracts (their definitions are generated from the source literal on demand).
func (e *Engine) registerMapTables() {
	for path, ps := range e.specs {
		var sp *ssa.Package
		for _, p := range e.prog.AllPackages() {
			if p.Pkg.Path() == path {
				sp = p
			}
		}
		if sp == nil {
			continue
		}
		for gname, fname := range ps.Tables {
			g, ok := sp.Members[gname].(*ssa.Global)
			if !ok {
				continue
			}
			m, ok := g.Type().(*types.Pointer).Elem().Underlying().(*types.Map)
			if !ok {
				continue
			}
			file := "@table:" + path + "." + gname
			e.tableGlobals[file] = g
			e.tableNames[g] = fname
			ksort, vsort := goSortName(m.Key()), goSortName(m.Elem())
			e.specSigs[fname+"_has"] = &SpecSig{Name: fname + "_has", Args: []string{ksort}, Res: SBool, File: file}
			e.specSigs[fname+"_val"] = &SpecSig{Name: fname + "_val", Args: []string{ksort}, Res: vsort, File: file}
		}
	}
}

func goSortName(t types.Type) string {
	if isInt, uns, w := basicInfo(t); isInt {
		if uns {
			return bvSort(w)
		}
		return SInt
	}
	if isStringType(t) {
		return SStr
	}
	if isBoolType(t) {
		return SBool
	}
	return SInt
}

// labelTags returns the property tags of a clause label ("name@C01,C02"), nil when the clause counts for every
// property of its function.
func labelTags(lab string) map[string]bool {
	i := strings.Index(lab, "@")
	if i < 0 {
		return nil
	}
	m := map[string]bool{}
	for _, t := range strings.Split(lab[i+1:], ",") {
		if t = strings.TrimSpace(t); t != "" {
			m[t] = true
		}
	}
	return m
}

// tagsCover reports whether a clause with tags `have` is checked in every property check that checks a clause
// with tags `need`.
func tagsCover(have, need map[string]bool) bool {
	if have == nil {
		return true
	}
	if need == nil {
		return false
	}
	for t := range need {
		if !have[t] {
			return false
		}
	}
	return true
}
