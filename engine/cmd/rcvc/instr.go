package main

import (
	"fmt"
	"os"
	"go/token"
	"go/types"
	"math/big"
	"strings"

	"golang.org/x/tools/go/ssa"
)

func (vc *VC) nilCheck(pc string, ref string, pos token.Pos, what string) {
	if strings.HasPrefix(ref, "(|fld!") || strings.HasPrefix(ref, "(fld!") || strings.HasPrefix(ref, "|g!") || strings.HasPrefix(ref, "g!") {
		return
	}
	vc.oblige("nopanic.nil", "", pc, "(not (= "+ref+" 0))", pos, "nil dereference: "+what)
}

// cellAlloc reports whether an Alloc can be modelled as a local cell (its address never escapes).
func cellAlloc(a *ssa.Alloc) bool {
	var ok func(v ssa.Value, depth int) bool
	ok = func(v ssa.Value, depth int) bool {
		refs := v.Referrers()
		if refs == nil {
			return true
		}
		for _, r := range *refs {
			switch t := r.(type) {
			case *ssa.Store:
				if t.Val == v {
					return false // address stored somewhere
				}
			case *ssa.UnOp:
				if t.Op != token.MUL {
					return false
				}
			case *ssa.DebugRef:
			case *ssa.FieldAddr:
				// address of a field of a local struct: fine if that does not escape either
				ft := t.Type().(*types.Pointer).Elem()
				switch ft.Underlying().(type) {
				case *types.Struct, *types.Array:
					if !ok(t, depth+1) {
						return false
					}
				default:
					if !ok(t, depth+1) {
						return false
					}
				}
			case *ssa.IndexAddr:
				if !ok(t, depth+1) {
					return false
				}
			case *ssa.MakeClosure:
				// captured by a closure: tolerated only if the closure is passed to a logging function
				if !closureIsLoggingOnly(t) {
					return false
				}
			case *ssa.Slice:
				return false
			default:
				if os.Getenv("VERIF_DEBUG_CELL") != "" {
					fmt.Fprintf(os.Stderr, "cellAlloc %s (%s): referrer %T %s\n", a.Name(), a.Comment, r, r)
				}
				return false
			}
		}
		return true
	}
	return ok(a, 0)
}

func closureIsLoggingOnly(mc *ssa.MakeClosure) bool {
	refs := mc.Referrers()
	if refs == nil {
		return true
	}
	for _, r := range *refs {
		if _, dbg := r.(*ssa.DebugRef); dbg {
			continue
		}
		c, ok := r.(*ssa.Call)
		if !ok {
			return false
		}
		callee := c.Call.StaticCallee()
		if callee == nil || callee.Pkg == nil || !strings.HasSuffix(callee.Pkg.Pkg.Path(), "/logging") {
			return false
		}
	}
	return true
}

func (vc *VC) execInstr(fr *Frame, st *State, pc string, in ssa.Instruction) {
	switch t := in.(type) {
	case *ssa.DebugRef:
	case *ssa.Alloc:
		et := t.Type().(*types.Pointer).Elem()
		if cellAlloc(t) {
			fr.vals[t] = Sym{L: &LVal{Kind: LCell, Cell: t, T: et}}
			// cells start at the zero value
			st.cells[t] = Term{S: vc.zeroOf(et), Sort: vc.sortOf(et), T: et}
			return
		}
		r := vc.newRef(st, pc)
		if os.Getenv("VERIF_DEBUG_CELL") != "" {
			fmt.Fprintf(os.Stderr, "heapAlloc %s in %s: %s (%s) -> %s\n", t.Name(), t.Parent().Name(), et, t.Comment, r)
		}
		switch u := et.Underlying().(type) {
		case *types.Struct:
			vc.storeStruct(st, et, r, vc.zeroOf(et))
			fr.vals[t] = Sym{T: Term{S: r, Sort: SInt, T: t.Type()}}
		case *types.Array:
			mk := vc.memKey(u.Elem())
			h := vc.heapGet(st, mk)
			vc.heapSet(st, mk, store(h.S, r, vc.zeroOf(et)))
			fr.vals[t] = Sym{T: Term{S: r, Sort: SInt, T: t.Type()}}
		default:
			key := vc.ptrKey(et)
			l := &LVal{Kind: LPtr, Key: key, Ref: r, T: et}
			vc.storeL(st, l, Term{S: vc.zeroOf(et), Sort: vc.sortOf(et), T: et})
			fr.vals[t] = Sym{L: l}
		}
	case *ssa.Store:
		addr := vc.sym(fr, st, t.Addr)
		val := vc.value(fr, st, t.Val)
		if addr.L != nil {
			vc.storeL(st, addr.L, val)
			return
		}
		// pointer term: store whole struct / array / scalar through pointer
		et := t.Addr.Type().Underlying().(*types.Pointer).Elem()
		vc.nilCheck(pc, addr.T.S, t.Pos(), "store through pointer")
		switch u := et.Underlying().(type) {
		case *types.Struct:
			vc.storeStruct(st, et, addr.T.S, val.S)
		case *types.Array:
			mk := vc.memKey(u.Elem())
			h := vc.heapGet(st, mk)
			vc.heapSet(st, mk, store(h.S, addr.T.S, val.S))
		default:
			key := vc.ptrKey(et)
			vc.storeL(st, &LVal{Kind: LPtr, Key: key, Ref: addr.T.S, T: et}, val)
		}
	case *ssa.UnOp:
		vc.execUnOp(fr, st, pc, t)
	case *ssa.BinOp:
		x := vc.value(fr, st, t.X)
		y := vc.value(fr, st, t.Y)
		fr.vals[t] = Sym{T: vc.binop(pc, t.Op, x, y, t.X.Type(), t.Type(), t.Pos())}
	case *ssa.FieldAddr:
		x := vc.sym(fr, st, t.X)
		pt := t.X.Type().Underlying().(*types.Pointer).Elem()
		stt := pt.Underlying().(*types.Struct)
		f := stt.Field(t.Field)
		if x.L != nil {
			// field of a local struct value
			vc.sortOf(pt)
			fr.vals[t] = Sym{L: &LVal{Kind: LSubField, Parent: x.L, FIdx: t.Field, ST: stt, STName: structName(pt), T: f.Type()}}
			return
		}
		vc.nilCheck(pc, x.T.S, t.Pos(), "field "+f.Name())
		switch f.Type().Underlying().(type) {
		case *types.Struct, *types.Array:
			fr.vals[t] = Sym{T: Term{S: vc.fld(pt, f.Name(), x.T.S), Sort: SInt, T: t.Type()}}
		default:
			key, _ := vc.fieldKey(pt, stt, t.Field)
			fr.vals[t] = Sym{L: &LVal{Kind: LField, Key: key, Ref: x.T.S, T: f.Type()}}
		}
	case *ssa.Field:
		x := vc.value(fr, st, t.X)
		stt := t.X.Type().Underlying().(*types.Struct)
		acc := q("V!" + structName(t.X.Type()) + "." + stt.Field(t.Field).Name())
		ft := stt.Field(t.Field).Type()
		fr.vals[t] = Sym{T: Term{S: app(acc, x.S), Sort: vc.sortOf(ft), T: ft}}
	case *ssa.IndexAddr:
		x := vc.sym(fr, st, t.X)
		idx := vc.value(fr, st, t.Index)
		if g, ok := t.X.(*ssa.Global); ok {
			if ps := vc.eng.specs[g.Pkg.Pkg.Path()]; ps != nil {
				if fname, ok := ps.Tables[g.Name()]; ok {
					if err := vc.eng.immutable(g); err != nil {
						vc.unsup("table %s: %v", g.Name(), err)
					}
					arr := g.Type().(*types.Pointer).Elem().Underlying().(*types.Array)
					ii := vc.toInt(idx)
					vc.oblige("nopanic.index", "", pc, fmt.Sprintf("(and (<= 0 %s) (< %s %d))", ii.S, ii.S, arr.Len()), t.Pos(), "array index in range")
					if sig, ok := vc.eng.specSigs[fname]; ok {
						vc.uses[sig.File] = true
						if len(sig.Args) != 1 || sig.Args[0] != idx.Sort || sig.Res != vc.sortOf(arr.Elem()) {
							vc.unsup("table %s: sorts %s -> %s do not match %s", g.Name(), idx.Sort, vc.sortOf(arr.Elem()), fname)
						}
					} else {
						vc.unsup("table %s: unknown spec function %s", g.Name(), fname)
					}
					vc.trusted["global "+g.String()+" read through its source literal (immutability checked by whole-program scan)"] = true
					fr.vals[t] = Sym{L: &LVal{Kind: LTable, Key: fname, Idx: idx.S, T: arr.Elem()}}
					return
				}
			}
		}
		idx = vc.toInt(idx)
		switch u := t.X.Type().Underlying().(type) {
		case *types.Slice:
			sl := x.T
			vc.oblige("nopanic.index", "", pc, fmt.Sprintf("(and (<= 0 %s) (< %s (sl.len %s)))", idx.S, idx.S, sl.S), t.Pos(), "slice index in range")
			key := vc.memKey(u.Elem())
			ai := vc.define("ix", SInt, "(+ (sl.off "+sl.S+") "+idx.S+")")
			fr.vals[t] = Sym{L: &LVal{Kind: LElem, Key: key, Ref: "(sl.base " + sl.S + ")", Idx: ai, T: u.Elem(), Sl: sl.S, RelIdx: idx.S}}
		case *types.Pointer:
			arr := u.Elem().Underlying().(*types.Array)
			vc.oblige("nopanic.index", "", pc, fmt.Sprintf("(and (<= 0 %s) (< %s %d))", idx.S, idx.S, arr.Len()), t.Pos(), "array index in range")
			if x.L != nil {
				fr.vals[t] = Sym{L: &LVal{Kind: LSubElem, Parent: x.L, Idx: idx.S, T: arr.Elem()}}
				return
			}
			vc.nilCheck(pc, x.T.S, t.Pos(), "array pointer")
			key := vc.memKey(arr.Elem())
			fr.vals[t] = Sym{L: &LVal{Kind: LElem, Key: key, Ref: x.T.S, Idx: idx.S, T: arr.Elem()}}
		default:
			vc.unsup("IndexAddr on %s", t.X.Type())
		}
	case *ssa.Index:
		x := vc.value(fr, st, t.X)
		idx := vc.toInt(vc.value(fr, st, t.Index))
		switch u := t.X.Type().Underlying().(type) {
		case *types.Basic: // string
			vc.oblige("nopanic.index", "", pc, fmt.Sprintf("(and (<= 0 %s) (< %s (s_len %s)))", idx.S, idx.S, x.S), t.Pos(), "string index in range")
			fr.vals[t] = Sym{T: Term{S: "(s_at " + x.S + " " + idx.S + ")", Sort: bvSort(8), T: types.Typ[types.Uint8]}}
		case *types.Array:
			vc.oblige("nopanic.index", "", pc, fmt.Sprintf("(and (<= 0 %s) (< %s %d))", idx.S, idx.S, u.Len()), t.Pos(), "array index in range")
			fr.vals[t] = Sym{T: Term{S: sel(x.S, idx.S), Sort: vc.sortOf(u.Elem()), T: u.Elem()}}
		default:
			vc.unsup("Index on %s", t.X.Type())
		}
	case *ssa.Slice:
		vc.execSlice(fr, st, pc, t)
	case *ssa.Call:
		res := vc.execCall(fr, st, pc, t, &t.Call)
		fr.vals[t] = res
	case *ssa.Extract:
		tup := vc.sym(fr, st, t.Tuple)
		if tup.Tuple == nil {
			vc.unsup("extract from non-tuple")
		}
		fr.vals[t] = tup.Tuple[t.Index]
	case *ssa.Convert:
		x := vc.value(fr, st, t.X)
		fr.vals[t] = Sym{T: vc.convert(st, pc, x, t.X.Type(), t.Type(), t.Pos())}
	case *ssa.ChangeType:
		x := vc.value(fr, st, t.X)
		x.T = t.Type()
		fr.vals[t] = Sym{T: x}
	case *ssa.ChangeInterface:
		x := vc.value(fr, st, t.X)
		x.T = t.Type()
		fr.vals[t] = Sym{T: x}
	case *ssa.MakeInterface:
		x := vc.value(fr, st, t.X)
		switch t.X.Type().Underlying().(type) {
		case *types.Pointer, *types.Map:
			// reference-like values are their own interface value (a type assertion hands the reference back)
			tag := vc.eng.typeTag(t.X.Type())
			vc.assume(pc, fmt.Sprintf("(=> (not (= %s 0)) (= (dyntype %s) %d))", x.S, x.S, tag))
			fr.vals[t] = Sym{T: Term{S: x.S, Sort: SInt, T: t.Type()}}
		default:
			// boxed non-pointer value: an injective function of (dynamic type, value), so that boxing equal
			// values twice yields equal interface values (interface comparison compares type and value)
			tag := vc.eng.typeTag(t.X.Type())
			bf := vc.boxCtor(x.Sort)
			n := vc.define("iface", SInt, fmt.Sprintf("(%s %d %s)", bf, tag, x.S))
			fr.vals[t] = Sym{T: Term{S: n, Sort: SInt, T: t.Type()}}
		}
	case *ssa.TypeAssert:
		x := vc.value(fr, st, t.X)
		vc.execTypeAssert(fr, st, pc, t, x)
	case *ssa.MakeSlice:
		ln := vc.toInt(vc.value(fr, st, t.Len))
		cp := vc.toInt(vc.value(fr, st, t.Cap))
		vc.oblige("nopanic.makeslice", "", pc, fmt.Sprintf("(and (<= 0 %s) (<= %s %s))", ln.S, ln.S, cp.S), t.Pos(), "make: 0 <= len <= cap")
		if fr.spec != nil && fr.spec.AllocBound || vc.spec != nil && vc.spec.AllocBound {
			vc.oblige("alloc.bound", "", pc, "(<= "+cp.S+" alloc_hint_max)", t.Pos(), "allocation size is bounded (not chosen freely by the peer)")
		}
		et := t.Type().Underlying().(*types.Slice).Elem()
		r := vc.newRef(st, pc)
		key := vc.memKey(et)
		h := vc.heapGet(st, key)
		zs := arrSort(SInt, vc.sortOf(et))
		vc.heapSet(st, key, store(h.S, r, vc.constArray(zs, vc.zeroOf(et))))
		fr.vals[t] = Sym{T: Term{S: fmt.Sprintf("(mk-slice %s 0 %s %s)", r, ln.S, cp.S), Sort: SSlice, T: t.Type()}}
	case *ssa.MakeMap:
		mt := t.Type().Underlying().(*types.Map)
		dk, _, lk := vc.mapKeys(mt)
		if t.Reserve != nil {
			rv := vc.toInt(vc.value(fr, st, t.Reserve))
			vc.oblige("nopanic.makemap", "", pc, "(<= 0 "+rv.S+")", t.Pos(), "make(map, n): n >= 0")
			if fr.spec != nil && fr.spec.AllocBound || vc.spec != nil && vc.spec.AllocBound {
				vc.oblige("alloc.bound", "", pc, "(<= "+rv.S+" alloc_hint_max)", t.Pos(), "allocation size hint is bounded (not chosen freely by the peer)")
			}
		}
		r := vc.newRef(st, pc)
		ks := vc.sortOf(mt.Key())
		h := vc.heapGet(st, dk)
		vc.heapSet(st, dk, store(h.S, r, fmt.Sprintf("((as const %s) false)", arrSort(ks, SBool))))
		hl := vc.heapGet(st, lk)
		vc.heapSet(st, lk, store(hl.S, r, "0"))
		fr.vals[t] = Sym{T: Term{S: r, Sort: SInt, T: t.Type()}}
	case *ssa.MakeChan:
		r := vc.newRef(st, pc)
		fr.vals[t] = Sym{T: Term{S: r, Sort: SInt, T: t.Type()}}
	case *ssa.MakeClosure:
		r := vc.newRef(st, pc)
		fr.vals[t] = Sym{T: Term{S: r, Sort: SInt, T: t.Type()}}
	case *ssa.MapUpdate:
		m := vc.value(fr, st, t.Map)
		k := vc.value(fr, st, t.Key)
		v := vc.value(fr, st, t.Value)
		mt := t.Map.Type().Underlying().(*types.Map)
		vc.oblige("nopanic.nilmap", "", pc, "(not (= "+m.S+" 0))", t.Pos(), "assignment to entry in nil map")
		vc.mapStore(st, mt, m.S, k.S, v.S)
	case *ssa.Lookup:
		x := vc.value(fr, st, t.X)
		k := vc.value(fr, st, t.Index)
		if ld, ok := t.X.(*ssa.UnOp); ok {
			if g, ok := ld.X.(*ssa.Global); ok {
				if fname, ok := vc.eng.tableNames[g]; ok {
					mt := vc.eng.mapTableFor(g, fname)
					vc.ensureMapTable(mt)
					in := vc.define("in", SBool, app(mt.hasFn, k.S))
					val := vc.define("mv", mt.vsort, app(mt.valFn, k.S))
					vt := Term{S: val, Sort: mt.vsort, T: mt.vt}
					if t.CommaOk {
						fr.vals[t] = Sym{Tuple: []Sym{{T: vt}, {T: Term{S: in, Sort: SBool, T: types.Typ[types.Bool]}}}}
					} else {
						fr.vals[t] = Sym{T: vt}
					}
					return
				}
			}
		}
		switch u := t.X.Type().Underlying().(type) {
		case *types.Map:
			dk, vk, _ := vc.mapKeys(u)
			in := vc.define("in", SBool, mkAnd("(not (= "+x.S+" 0))", sel(sel(vc.heapGet(st, dk).S, x.S), k.S)))
			vs := vc.sortOf(u.Elem())
			val := vc.define("mv", vs, mkIte(in, sel(sel(vc.heapGet(st, vk).S, x.S), k.S), vc.zeroOf(u.Elem())))
			vc.assumeAllocated(st, u.Elem(), val)
			vt := Term{S: val, Sort: vs, T: u.Elem()}
			if t.CommaOk {
				fr.vals[t] = Sym{Tuple: []Sym{{T: vt}, {T: Term{S: in, Sort: SBool, T: types.Typ[types.Bool]}}}}
			} else {
				fr.vals[t] = Sym{T: vt}
			}
		default:
			vc.unsup("Lookup on %s", t.X.Type())
		}
	case *ssa.Range:
		vc.execRange(fr, st, pc, t)
	case *ssa.Next:
		vc.execNext(fr, st, pc, t)
	case *ssa.Defer:
		st.defers = append(st.defers, deferred{t, fr})
	case *ssa.RunDefers:
		ds := st.defers
		st.defers = nil
		for i := len(ds) - 1; i >= 0; i-- {
			if ds[i].fr != fr {
				st.defers = append([]deferred{ds[i]}, st.defers...)
				continue
			}
			vc.execCall(fr, st, pc, ds[i].call, &ds[i].call.Call)
		}
	case *ssa.Go:
		vc.eng.noteAssumption("go statement in " + fr.fn.String() + ": spawned goroutine not modelled")
	case *ssa.Send:
		// channel send: no effect on modelled state
	case *ssa.Select:
		// nondeterministic choice
		idx := vc.fresh("sel", SInt)
		n := len(t.States)
		if !t.Blocking {
			vc.emit(fmt.Sprintf("(assert (and (<= (- 1) %s) (< %s %d)))", idx, idx, n))
		} else {
			vc.emit(fmt.Sprintf("(assert (and (<= 0 %s) (< %s %d)))", idx, idx, n))
		}
		tup := []Sym{{T: Term{S: idx, Sort: SInt}}, {T: Term{S: vc.fresh("recvok", SBool), Sort: SBool}}}
		for _, s := range t.States {
			if s.Dir == types.RecvOnly {
				et := s.Chan.Type().Underlying().(*types.Chan).Elem()
				v := vc.fresh("recv", vc.sortOf(et))
				vc.assumeAllocated(st, et, v)
				tup = append(tup, Sym{T: Term{S: v, Sort: vc.sortOf(et), T: et}})
			}
		}
		fr.vals[t] = Sym{Tuple: tup}
	case *ssa.SliceToArrayPointer, *ssa.MultiConvert:
		vc.unsup("instruction %T", in)
	default:
		vc.unsup("instruction %T in %s", in, fr.fn)
	}
}

// boxCtor declares box!sort : (tag, value) -> interface reference, with its inverse and type tag.
func (vc *VC) boxCtor(sort string) string {
	name := q("box!" + sort)
	if !vc.declared[name] {
		vc.declared[name] = true
		ub := vc.boxFn(sort)
		vc.emit("(declare-fun " + name + " (Int " + sort + ") Int)")
		vc.emit(fmt.Sprintf("(assert (forall ((t Int) (v %s)) (! (and (= (%s (%s t v)) v) (= (dyntype (%s t v)) t) (not (= (%s t v) 0)) (= (refkind (%s t v)) (- 7))) :pattern ((%s t v)))))",
			sort, ub, name, name, name, name, name))
	}
	return name
}

func (vc *VC) boxFn(sort string) string {
	name := q("unbox!" + sort)
	if !vc.declared[name] {
		vc.declared[name] = true
		vc.emit("(declare-fun " + name + " (Int) " + sort + ")")
	}
	return name
}

func (vc *VC) toInt(t Term) Term {
	if t.Sort == SInt {
		return t
	}
	if _, ok := isBV(t.Sort); ok {
		return Term{S: "(bv2nat " + t.S + ")", Sort: SInt, T: types.Typ[types.Int]}
	}
	vc.unsup("toInt on sort %s", t.Sort)
	return t
}

func (vc *VC) mapStore(st *State, mt *types.Map, m, k, v string) {
	dk, vk, lk := vc.mapKeys(mt)
	hd := vc.heapGet(st, dk)
	hv := vc.heapGet(st, vk)
	hl := vc.heapGet(st, lk)
	was := sel(sel(hd.S, m), k)
	vc.heapSet(st, lk, store(hl.S, m, mkIte(was, sel(hl.S, m), "(+ "+sel(hl.S, m)+" 1)")))
	vc.heapSet(st, dk, store(hd.S, m, store(sel(hd.S, m), k, "true")))
	vc.heapSet(st, vk, store(hv.S, m, store(sel(hv.S, m), k, v)))
}

func (vc *VC) mapDelete(st *State, mt *types.Map, m, k string) {
	dk, _, lk := vc.mapKeys(mt)
	hd := vc.heapGet(st, dk)
	hl := vc.heapGet(st, lk)
	was := mkAnd("(not (= "+m+" 0))", sel(sel(hd.S, m), k))
	vc.heapSet(st, lk, store(hl.S, m, mkIte(was, "(- "+sel(hl.S, m)+" 1)", sel(hl.S, m))))
	vc.heapSet(st, dk, mkIte("(= "+m+" 0)", hd.S, store(hd.S, m, store(sel(hd.S, m), k, "false"))))
}

func (vc *VC) execUnOp(fr *Frame, st *State, pc string, t *ssa.UnOp) {
	switch t.Op {
	case token.MUL: // load
		x := vc.sym(fr, st, t.X)
		if x.L != nil {
			fr.vals[t] = Sym{T: vc.load(st, x.L)}
			return
		}
		et := t.X.Type().Underlying().(*types.Pointer).Elem()
		vc.nilCheck(pc, x.T.S, t.Pos(), "load through pointer")
		switch u := et.Underlying().(type) {
		case *types.Struct:
			fr.vals[t] = Sym{T: vc.loadStruct(st, et, x.T.S)}
		case *types.Array:
			mk := vc.memKey(u.Elem())
			fr.vals[t] = Sym{T: Term{S: sel(vc.heapGet(st, mk).S, x.T.S), Sort: vc.sortOf(et), T: et}}
		default:
			key := vc.ptrKey(et)
			fr.vals[t] = Sym{T: vc.load(st, &LVal{Kind: LPtr, Key: key, Ref: x.T.S, T: et})}
		}
	case token.NOT:
		x := vc.value(fr, st, t.X)
		fr.vals[t] = Sym{T: Term{S: mkNot(x.S), Sort: SBool, T: t.Type()}}
	case token.SUB:
		x := vc.value(fr, st, t.X)
		if _, ok := isBV(x.Sort); ok {
			fr.vals[t] = Sym{T: Term{S: "(bvneg " + x.S + ")", Sort: x.Sort, T: t.Type()}}
		} else {
			fr.vals[t] = Sym{T: Term{S: "(- " + x.S + ")", Sort: x.Sort, T: t.Type()}}
		}
	case token.XOR:
		x := vc.value(fr, st, t.X)
		if _, ok := isBV(x.Sort); ok {
			fr.vals[t] = Sym{T: Term{S: "(bvnot " + x.S + ")", Sort: x.Sort, T: t.Type()}}
		} else {
			fr.vals[t] = Sym{T: Term{S: "(- (- " + x.S + ") 1)", Sort: x.Sort, T: t.Type()}}
		}
	case token.ARROW:
		et := t.Type()
		if t.CommaOk {
			et = t.Type().(*types.Tuple).At(0).Type()
		}
		v := vc.fresh("recv", vc.sortOf(et))
		vc.assumeAllocated(st, et, v)
		vt := Term{S: v, Sort: vc.sortOf(et), T: et}
		if t.CommaOk {
			fr.vals[t] = Sym{Tuple: []Sym{{T: vt}, {T: Term{S: vc.fresh("recvok", SBool), Sort: SBool}}}}
		} else {
			fr.vals[t] = Sym{T: vt}
		}
	default:
		vc.unsup("unary op %s", t.Op)
	}
}

func (vc *VC) execSlice(fr *Frame, st *State, pc string, t *ssa.Slice) {
	x := vc.sym(fr, st, t.X)
	var lo, hi, mx string
	if t.Low != nil {
		lo = vc.toInt(vc.value(fr, st, t.Low)).S
	} else {
		lo = "0"
	}
	switch u := t.X.Type().Underlying().(type) {
	case *types.Basic: // string
		s := x.T
		if t.High != nil {
			hi = vc.toInt(vc.value(fr, st, t.High)).S
		} else {
			hi = "(s_len " + s.S + ")"
		}
		vc.oblige("nopanic.slice", "", pc, fmt.Sprintf("(and (<= 0 %s) (<= %s %s) (<= %s (s_len %s)))", lo, lo, hi, hi, s.S), t.Pos(), "string slice bounds")
		r := vc.strSub(s.S, lo, hi)
		fr.vals[t] = Sym{T: Term{S: r, Sort: SStr, T: t.Type()}}
	case *types.Slice:
		s := x.T
		if t.High != nil {
			hi = vc.toInt(vc.value(fr, st, t.High)).S
		} else {
			hi = "(sl.len " + s.S + ")"
		}
		if t.Max != nil {
			mx = vc.toInt(vc.value(fr, st, t.Max)).S
		} else {
			mx = "(sl.cap " + s.S + ")"
		}
		vc.oblige("nopanic.slice", "", pc, fmt.Sprintf("(and (<= 0 %s) (<= %s %s) (<= %s %s) (<= %s (sl.cap %s)))", lo, lo, hi, hi, mx, mx, s.S), t.Pos(), "slice bounds")
		v := fmt.Sprintf("(mk-slice (sl.base %s) (+ (sl.off %s) %s) (- %s %s) (- %s %s))", s.S, s.S, lo, hi, lo, mx, lo)
		fr.vals[t] = Sym{T: Term{S: vc.define("sl", SSlice, v), Sort: SSlice, T: t.Type()}}
	case *types.Pointer: // pointer to array
		arr := u.Elem().Underlying().(*types.Array)
		if x.L != nil {
			vc.unsup("slicing a local array value")
		}
		if t.High != nil {
			hi = vc.toInt(vc.value(fr, st, t.High)).S
		} else {
			hi = fmt.Sprint(arr.Len())
		}
		mx = fmt.Sprint(arr.Len())
		vc.nilCheck(pc, x.T.S, t.Pos(), "slice of array pointer")
		vc.oblige("nopanic.slice", "", pc, fmt.Sprintf("(and (<= 0 %s) (<= %s %s) (<= %s %s))", lo, lo, hi, hi, mx), t.Pos(), "array slice bounds")
		vc.memKey(arr.Elem())
		v := fmt.Sprintf("(mk-slice %s %s (- %s %s) (- %s %s))", x.T.S, lo, hi, lo, mx, lo)
		fr.vals[t] = Sym{T: Term{S: vc.define("sl", SSlice, v), Sort: SSlice, T: t.Type()}}
	default:
		vc.unsup("slice of %s", t.X.Type())
	}
}

func (vc *VC) strSub(s, lo, hi string) string {
	if lo == "0" && hi == "(s_len "+s+")" {
		return s
	}
	r := vc.fresh("sub", SStr)
	vc.emit(fmt.Sprintf("(assert (= %s (s_sub %s %s %s)))", r, s, lo, hi))
	return r
}

func (vc *VC) execTypeAssert(fr *Frame, st *State, pc string, t *ssa.TypeAssert, x Term) {
	if fr.spec != nil && len(fr.spec.Asserts) > 0 {
		vc.atCall(fr, st, pc, "typeassert", vc.callOrdinal(fr, t, "typeassert"), t)
	}
	at := t.AssertedType
	var okc string
	if _, isIface := at.Underlying().(*types.Interface); isIface {
		// interface-to-interface: succeeds iff non-nil (all bound implementations satisfy our interfaces)
		okc = "(not (= " + x.S + " 0))"
	} else if b := vc.eng.boundType(t.X.Type()); b != "" && b == types.TypeString(at, nil) {
		// the interface is bound to this very type (`bind I = T`: every implementation the proxy creates is a T)
		okc = "(not (= " + x.S + " 0))"
		vc.trusted["interface "+t.X.Type().String()+" holds only "+b+" values (bind)"] = true
	} else {
		tag := vc.eng.typeTag(at)
		okc = fmt.Sprintf("(and (not (= %s 0)) (= (dyntype %s) %d))", x.S, x.S, tag)
	}
	var val Term
	switch at.Underlying().(type) {
	case *types.Pointer, *types.Interface, *types.Map, *types.Chan, *types.Signature:
		val = Term{S: x.S, Sort: SInt, T: at}
	default:
		s := vc.sortOf(at)
		val = Term{S: app(vc.boxFn(s), x.S), Sort: s, T: at}
	}
	if t.CommaOk {
		okv := vc.define("taok", SBool, okc)
		v := Term{S: mkIte(okv, val.S, vc.zeroOf(at)), Sort: val.Sort, T: at}
		fr.vals[t] = Sym{Tuple: []Sym{{T: v}, {T: Term{S: okv, Sort: SBool}}}}
		return
	}
	vc.oblige("nopanic.typeassert", "", pc, okc, t.Pos(), "type assertion to "+at.String())
	fr.vals[t] = Sym{T: val}
}

// ---------- range ----------

func (vc *VC) execRange(fr *Frame, st *State, pc string, t *ssa.Range) {
	x := vc.value(fr, st, t.X)
	ri := &RangeIter{Instr: t, X: x}
	switch u := t.X.Type().Underlying().(type) {
	case *types.Map:
		ri.IsMap = true
		ri.MapType = u
		ri.KSort = vc.sortOf(u.Key())
		ri.VSort = vc.sortOf(u.Elem())
		ri.KT, ri.VT = u.Key(), u.Elem()
		ri.VisKey = fmt.Sprintf("RV:%s:%d", fr.fn.String(), t.Pos())
		vc.regKey(ri.VisKey, arrSort(ri.KSort, SBool))
		vc.heapSet(st, ri.VisKey, fmt.Sprintf("((as const %s) false)", arrSort(ri.KSort, SBool)))
	default:
		vc.unsup("range over %s", t.X.Type())
	}
	fr.vals[t] = Sym{Rng: ri}
}

func (vc *VC) execNext(fr *Frame, st *State, pc string, t *ssa.Next) {
	it := vc.sym(fr, st, t.Iter)
	ri := it.Rng
	if ri == nil || !ri.IsMap {
		vc.unsup("next on unsupported iterator")
	}
	dk, vk, _ := vc.mapKeys(ri.MapType)
	m := ri.X.S
	vis := vc.heapGet(st, ri.VisKey)
	ok := vc.fresh("rok", SBool)
	k := vc.fresh("rk", ri.KSort)
	dom := sel(vc.heapGet(st, dk).S, m)
	// ok => k in dom and not visited ; !ok => every key in dom visited
	vc.emit(fmt.Sprintf("(assert (=> %s (and (not (= %s 0)) (select %s %s) (not (select %s %s)))))", ok, m, dom, k, vis.S, k))
	vc.emit(fmt.Sprintf("(assert (=> (not %s) (or (= %s 0) (forall ((kk %s)) (! (=> (select %s kk) (select %s kk)) :pattern ((select %s kk)))))))", ok, m, ri.KSort, dom, vis.S, vis.S))
	v := vc.define("rv", ri.VSort, sel(sel(vc.heapGet(st, vk).S, m), k))
	vc.assumeAllocated(st, ri.VT, v)
	vc.assumeAllocated(st, ri.KT, k)
	vc.heapSet(st, ri.VisKey, mkIte(ok, store(vis.S, k, "true"), vis.S))
	fr.vals[t] = Sym{Tuple: []Sym{
		{T: Term{S: ok, Sort: SBool}},
		{T: Term{S: k, Sort: ri.KSort, T: ri.KT}},
		{T: Term{S: v, Sort: ri.VSort, T: ri.VT}},
	}}
}

// ---------- arithmetic ----------

func (vc *VC) uf(name string, argSorts []string, res string) string {
	n := q(name)
	if !vc.declared[n] {
		vc.declared[n] = true
		vc.emit("(declare-fun " + n + " (" + strings.Join(argSorts, " ") + ") " + res + ")")
	}
	return n
}

func pow2(k int64) string { return new(big.Int).Lsh(big.NewInt(1), uint(k)).String() }

func constIntOf(s string) (int64, bool) {
	var v int64
	if _, err := fmt.Sscanf(s, "%d", &v); err == nil && fmt.Sprint(v) == s {
		return v, true
	}
	return 0, false
}

func (vc *VC) fitsCheck(pc string, v string, t types.Type, pos token.Pos) {
	if vc.spec == nil || !vc.spec.Overflow {
		return
	}
	isInt, uns, w := basicInfo(t)
	if !isInt || uns {
		return
	}
	lo := new(big.Int).Neg(new(big.Int).Lsh(big.NewInt(1), uint(w-1)))
	hi := new(big.Int).Sub(new(big.Int).Lsh(big.NewInt(1), uint(w-1)), big.NewInt(1))
	vc.oblige("overflow", "", pc, fmt.Sprintf("(and (<= %s %s) (<= %s %s))", intLit(lo), v, v, intLit(hi)), pos, "signed arithmetic stays in range")
}

func (vc *VC) binop(pc string, op token.Token, x, y Term, xt types.Type, rt types.Type, pos token.Pos) Term {
	rs := vc.sortOf(rt)
	if wx, ok := isBV(x.Sort); ok {
		// shifts: bring y to the same width
		if op == token.SHL || op == token.SHR {
			y = vc.toBVWidth(y, wx)
		}
		var f string
		switch op {
		case token.ADD:
			f = "bvadd"
		case token.SUB:
			f = "bvsub"
		case token.MUL:
			f = "bvmul"
		case token.QUO:
			vc.oblige("nopanic.divzero", "", pc, "(not (= "+y.S+" "+bvLit(big.NewInt(0), wx)+"))", pos, "division by zero")
			f = "bvudiv"
		case token.REM:
			vc.oblige("nopanic.divzero", "", pc, "(not (= "+y.S+" "+bvLit(big.NewInt(0), wx)+"))", pos, "division by zero")
			f = "bvurem"
		case token.AND:
			f = "bvand"
		case token.OR:
			f = "bvor"
		case token.XOR:
			f = "bvxor"
		case token.AND_NOT:
			return Term{S: "(bvand " + x.S + " (bvnot " + y.S + "))", Sort: rs, T: rt}
		case token.SHL:
			f = "bvshl"
		case token.SHR:
			f = "bvlshr"
		case token.EQL:
			return Term{S: mkEq(x.S, y.S), Sort: SBool, T: rt}
		case token.NEQ:
			return Term{S: mkNot(mkEq(x.S, y.S)), Sort: SBool, T: rt}
		case token.LSS:
			return Term{S: "(bvult " + x.S + " " + y.S + ")", Sort: SBool, T: rt}
		case token.LEQ:
			return Term{S: "(bvule " + x.S + " " + y.S + ")", Sort: SBool, T: rt}
		case token.GTR:
			return Term{S: "(bvugt " + x.S + " " + y.S + ")", Sort: SBool, T: rt}
		case token.GEQ:
			return Term{S: "(bvuge " + x.S + " " + y.S + ")", Sort: SBool, T: rt}
		default:
			vc.unsup("bv binop %s", op)
		}
		return Term{S: "(" + f + " " + x.S + " " + y.S + ")", Sort: rs, T: rt}
	}
	switch x.Sort {
	case SInt:
		if _, isIntT, _ := basicInfo(xt); !isIntT {
		}
		isInt, _, _ := basicInfo(xt)
		if !isInt {
			// pointers / interfaces / maps / chans: only == and !=
			switch op {
			case token.EQL:
				return Term{S: mkEq(x.S, y.S), Sort: SBool, T: rt}
			case token.NEQ:
				return Term{S: mkNot(mkEq(x.S, y.S)), Sort: SBool, T: rt}
			}
			vc.unsup("binop %s on %s", op, xt)
		}
		if op == token.SHL || op == token.SHR {
			y = vc.toInt(y)
		}
		var s string
		switch op {
		case token.ADD:
			s = "(+ " + x.S + " " + y.S + ")"
			vc.fitsCheck(pc, s, rt, pos)
		case token.SUB:
			s = "(- " + x.S + " " + y.S + ")"
			vc.fitsCheck(pc, s, rt, pos)
		case token.MUL:
			s = "(* " + x.S + " " + y.S + ")"
			vc.fitsCheck(pc, s, rt, pos)
		case token.QUO:
			vc.oblige("nopanic.divzero", "", pc, "(not (= "+y.S+" 0))", pos, "division by zero")
			if k, ok := constIntOf(y.S); ok && k > 0 {
				s = fmt.Sprintf("(ite (>= %s 0) (div %s %d) (- (div (- %s) %d)))", x.S, x.S, k, x.S, k)
			} else {
				s = "(go_div " + x.S + " " + y.S + ")"
			}
		case token.REM:
			vc.oblige("nopanic.divzero", "", pc, "(not (= "+y.S+" 0))", pos, "division by zero")
			if k, ok := constIntOf(y.S); ok && k > 0 {
				s = fmt.Sprintf("(ite (>= %s 0) (mod %s %d) (- (mod (- %s) %d)))", x.S, x.S, k, x.S, k)
			} else {
				s = "(go_mod " + x.S + " " + y.S + ")"
			}
		case token.SHL:
			if k, ok := constIntOf(y.S); ok && k >= 0 && k < 63 {
				s = "(* " + x.S + " " + pow2(k) + ")"
				vc.fitsCheck(pc, s, rt, pos)
			} else {
				s = app(vc.uf("int_shl", []string{SInt, SInt}, SInt), x.S, y.S)
			}
		case token.SHR:
			if k, ok := constIntOf(y.S); ok && k >= 0 && k < 63 {
				s = "(div " + x.S + " " + pow2(k) + ")"
			} else {
				s = app(vc.uf("int_shr", []string{SInt, SInt}, SInt), x.S, y.S)
			}
		case token.AND:
			s = app(vc.uf("int_and", []string{SInt, SInt}, SInt), x.S, y.S)
		case token.OR:
			s = app(vc.uf("int_or", []string{SInt, SInt}, SInt), x.S, y.S)
		case token.XOR:
			s = app(vc.uf("int_xor", []string{SInt, SInt}, SInt), x.S, y.S)
		case token.AND_NOT:
			s = app(vc.uf("int_andnot", []string{SInt, SInt}, SInt), x.S, y.S)
		case token.EQL:
			return Term{S: mkEq(x.S, y.S), Sort: SBool, T: rt}
		case token.NEQ:
			return Term{S: mkNot(mkEq(x.S, y.S)), Sort: SBool, T: rt}
		case token.LSS:
			return Term{S: "(< " + x.S + " " + y.S + ")", Sort: SBool, T: rt}
		case token.LEQ:
			return Term{S: "(<= " + x.S + " " + y.S + ")", Sort: SBool, T: rt}
		case token.GTR:
			return Term{S: "(> " + x.S + " " + y.S + ")", Sort: SBool, T: rt}
		case token.GEQ:
			return Term{S: "(>= " + x.S + " " + y.S + ")", Sort: SBool, T: rt}
		default:
			vc.unsup("int binop %s", op)
		}
		return Term{S: s, Sort: SInt, T: rt}
	case SBool:
		switch op {
		case token.EQL:
			return Term{S: mkEq(x.S, y.S), Sort: SBool, T: rt}
		case token.NEQ:
			return Term{S: mkNot(mkEq(x.S, y.S)), Sort: SBool, T: rt}
		case token.AND:
			return Term{S: mkAnd(x.S, y.S), Sort: SBool, T: rt}
		case token.OR:
			return Term{S: mkOr(x.S, y.S), Sort: SBool, T: rt}
		}
	case SStr:
		switch op {
		case token.EQL:
			return Term{S: mkEq(x.S, y.S), Sort: SBool, T: rt}
		case token.NEQ:
			return Term{S: mkNot(mkEq(x.S, y.S)), Sort: SBool, T: rt}
		case token.ADD:
			r := vc.fresh("cat", SStr)
			vc.emit(fmt.Sprintf("(assert (= %s (s_cat %s %s)))", r, x.S, y.S))
			return Term{S: r, Sort: SStr, T: rt}
		case token.LSS, token.LEQ, token.GTR, token.GEQ:
			f := vc.uf("s_less", []string{SStr, SStr}, SBool)
			switch op {
			case token.LSS:
				return Term{S: app(f, x.S, y.S), Sort: SBool, T: rt}
			case token.GTR:
				return Term{S: app(f, y.S, x.S), Sort: SBool, T: rt}
			case token.LEQ:
				return Term{S: mkNot(app(f, y.S, x.S)), Sort: SBool, T: rt}
			default:
				return Term{S: mkNot(app(f, x.S, y.S)), Sort: SBool, T: rt}
			}
		}
	case SSlice:
		// comparison with nil only
		switch op {
		case token.EQL:
			return Term{S: mkAnd("(= (sl.base "+x.S+") 0)", "(= (sl.base "+y.S+") 0)"), Sort: SBool, T: rt}
		case token.NEQ:
			return Term{S: mkNot(mkAnd("(= (sl.base "+x.S+") 0)", "(= (sl.base "+y.S+") 0)")), Sort: SBool, T: rt}
		}
	case "Real":
		var f string
		switch op {
		case token.ADD:
			f = "+"
		case token.SUB:
			f = "-"
		case token.MUL:
			f = "*"
		case token.QUO:
			f = "/"
		case token.EQL:
			return Term{S: mkEq(x.S, y.S), Sort: SBool, T: rt}
		case token.NEQ:
			return Term{S: mkNot(mkEq(x.S, y.S)), Sort: SBool, T: rt}
		case token.LSS:
			return Term{S: "(< " + x.S + " " + y.S + ")", Sort: SBool, T: rt}
		case token.LEQ:
			return Term{S: "(<= " + x.S + " " + y.S + ")", Sort: SBool, T: rt}
		case token.GTR:
			return Term{S: "(> " + x.S + " " + y.S + ")", Sort: SBool, T: rt}
		case token.GEQ:
			return Term{S: "(>= " + x.S + " " + y.S + ")", Sort: SBool, T: rt}
		}
		if f != "" {
			return Term{S: "(" + f + " " + x.S + " " + y.S + ")", Sort: "Real", T: rt}
		}
	default:
		// datatype / array values: equality only
		switch op {
		case token.EQL:
			return Term{S: mkEq(x.S, y.S), Sort: SBool, T: rt}
		case token.NEQ:
			return Term{S: mkNot(mkEq(x.S, y.S)), Sort: SBool, T: rt}
		}
	}
	vc.unsup("binop %s on sort %s", op, x.Sort)
	return Term{}
}

func (vc *VC) toBVWidth(y Term, w int) Term {
	var lk, lw int64
	if n, _ := fmt.Sscanf(y.S, "(_ bv%d %d)", &lk, &lw); n == 2 {
		if lk > int64(w) {
			lk = int64(w)
		}
		return Term{S: bvLit(big.NewInt(lk), w), Sort: bvSort(w)}
	}
	if wy, ok := isBV(y.Sort); ok {
		switch {
		case wy == w:
			return y
		case wy < w:
			return Term{S: fmt.Sprintf("((_ zero_extend %d) %s)", w-wy, y.S), Sort: bvSort(w)}
		default:
			// shift count wider than operand: saturate
			return Term{S: fmt.Sprintf("(ite (bvuge %s %s) %s ((_ extract %d 0) %s))", y.S, bvLit(big.NewInt(int64(w)), wy), bvLit(big.NewInt(int64(w)), w), w-1, y.S), Sort: bvSort(w)}
		}
	}
	if k, ok := constIntOf(y.S); ok {
		return Term{S: bvLit(big.NewInt(k), w), Sort: bvSort(w)}
	}
	return Term{S: fmt.Sprintf("((_ int2bv %d) %s)", w, y.S), Sort: bvSort(w)}
}

func (vc *VC) convert(st *State, pc string, x Term, from, to types.Type, pos token.Pos) Term {
	ts := vc.sortOf(to)
	fi, fu, fw := basicInfo(from)
	ti, tu, tw := basicInfo(to)
	switch {
	case fi && ti:
		switch {
		case !fu && !tu:
			if tw < fw {
				vc.fitsCheck(pc, x.S, to, pos)
			}
			return Term{S: x.S, Sort: SInt, T: to}
		case fu && !tu:
			v := "(bv2nat " + x.S + ")"
			if tw <= fw {
				vc.fitsCheck(pc, v, to, pos)
			}
			return Term{S: v, Sort: SInt, T: to}
		case fu && tu:
			switch {
			case fw == tw:
				return Term{S: x.S, Sort: ts, T: to}
			case fw < tw:
				return Term{S: fmt.Sprintf("((_ zero_extend %d) %s)", tw-fw, x.S), Sort: ts, T: to}
			default:
				return Term{S: fmt.Sprintf("((_ extract %d 0) %s)", tw-1, x.S), Sort: ts, T: to}
			}
		default: // signed -> unsigned
			if k, ok := constIntOf(x.S); ok {
				return Term{S: bvLit(big.NewInt(k), tw), Sort: ts, T: to}
			}
			return Term{S: fmt.Sprintf("((_ int2bv %d) %s)", tw, x.S), Sort: ts, T: to}
		}
	case isStringType(to) && x.Sort == SSlice:
		// string(bytes): the string holding the current contents of the window (snapshot of this memory version)
		key := vc.memKey(types.Typ[types.Uint8])
		mem := vc.heapGet(st, key)
		r := vc.define("str", SStr, fmt.Sprintf("(s_of (select %s (sl.base %s)) (sl.off %s) (sl.len %s))", mem.S, x.S, x.S, x.S))
		return Term{S: r, Sort: SStr, T: to}
	case x.Sort == SStr && ts == SSlice:
		// []byte(s)
		ref := vc.newRef(st, pc)
		key := vc.memKey(types.Typ[types.Uint8])
		mem := vc.heapGet(st, key)
		arr := vc.fresh("bytes", arrSort(SInt, bvSort(8)))
		vc.emit(fmt.Sprintf("(assert (forall ((i Int)) (! (=> (and (<= 0 i) (< i (s_len %s))) (= (select %s i) (s_at %s i))) :pattern ((select %s i)))))", x.S, arr, x.S, arr))
		vc.heapSet(st, key, store(mem.S, ref, arr))
		return Term{S: fmt.Sprintf("(mk-slice %s 0 (s_len %s) (s_len %s))", ref, x.S, x.S), Sort: SSlice, T: to}
	case isStringType(to) && isStringType(from):
		return Term{S: x.S, Sort: SStr, T: to}
	case isFloatType(to) && fi:
		if fu {
			return Term{S: "(to_real (bv2nat " + x.S + "))", Sort: "Real", T: to}
		}
		return Term{S: "(to_real " + x.S + ")", Sort: "Real", T: to}
	case ti && isFloatType(from):
		if tu {
			vc.unsup("float to unsigned conversion")
		}
		return Term{S: "(to_int " + x.S + ")", Sort: SInt, T: to}
	case isFloatType(to) && isFloatType(from):
		return Term{S: x.S, Sort: "Real", T: to}
	case x.Sort == ts:
		return Term{S: x.S, Sort: ts, T: to}
	}
	vc.unsup("conversion %s -> %s", from, to)
	return Term{}
}
