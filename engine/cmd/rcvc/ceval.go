package main

// Evaluation of contract expressions to SMT terms in a given state.

import (
	"sort"
	"fmt"
	"go/constant"
	"go/token"
	"go/types"
	"math/big"
	"strings"

	"golang.org/x/tools/go/ssa"
)

type Env struct {
	vc         *VC
	vars       map[string]Term
	cur        *State
	old        *State
	oldVars    map[string]Term // entry values of parameters
	pkg        *ssa.Package
	tpkg       *types.Package
	results    []Term
	fr         *Frame // for local cell lookup
	calleeMode bool
	loopEntry  *State
}

func (env *Env) typesPkg() *types.Package {
	if env.pkg != nil {
		return env.pkg.Pkg
	}
	return env.tpkg
}

func (env *Env) withBound(names []string, terms []Term) *Env {
	n := *env
	n.vars = map[string]Term{}
	for k, v := range env.vars {
		n.vars[k] = v
	}
	for i, nm := range names {
		n.vars[nm] = terms[i]
	}
	return &n
}

// envAt builds the environment for loop invariants / program-point assertions inside fr.
func (vc *VC) envAt(fr *Frame, st *State) *Env {
	env := &Env{vc: vc, vars: map[string]Term{}, cur: st, old: fr.entry, pkg: fr.fn.Pkg, fr: fr, oldVars: fr.params}
	return env
}

func (env *Env) lookupPkg(name string) *types.Package {
	tp := env.typesPkg()
	if tp == nil {
		return nil
	}
	if tp.Name() == name {
		return tp
	}
	var found *types.Package
	for _, imp := range tp.Imports() {
		if imp.Name() == name {
			if strings.HasPrefix(imp.Path(), "rcproxy") {
				return imp // project packages win over standard-library packages of the same name
			}
			if found == nil {
				found = imp
			}
		}
	}
	if found != nil {
		return found
	}
	// any loaded package by name
	for _, p := range env.vc.eng.prog.AllPackages() {
		if p.Pkg.Name() == name {
			return p.Pkg
		}
	}
	return nil
}

func (env *Env) lookupType(name string) types.Type {
	switch name {
	case "int":
		return types.Typ[types.Int]
	case "int32":
		return types.Typ[types.Int32]
	case "int64":
		return types.Typ[types.Int64]
	case "int8":
		return types.Typ[types.Int8]
	case "byte", "uint8":
		return types.Typ[types.Uint8]
	case "uint16":
		return types.Typ[types.Uint16]
	case "uint32":
		return types.Typ[types.Uint32]
	case "uint64":
		return types.Typ[types.Uint64]
	case "bool":
		return types.Typ[types.Bool]
	case "string":
		return types.Typ[types.String]
	}
	if strings.HasPrefix(name, "*") {
		t := env.lookupType(name[1:])
		if t == nil {
			return nil
		}
		return types.NewPointer(t)
	}
	if strings.HasPrefix(name, "[]") {
		t := env.lookupType(name[2:])
		if t == nil {
			return nil
		}
		return types.NewSlice(t)
	}
	tp := env.typesPkg()
	if i := strings.Index(name, "."); i >= 0 {
		tp = env.lookupPkg(name[:i])
		name = name[i+1:]
	}
	if tp == nil {
		return nil
	}
	obj := tp.Scope().Lookup(name)
	if tn, ok := obj.(*types.TypeName); ok {
		return tn.Type()
	}
	return nil
}

func (env *Env) lookupGlobal(name string) *ssa.Global {
	var sp *ssa.Package
	if i := strings.Index(name, "."); i >= 0 {
		tp := env.lookupPkg(name[:i])
		if tp == nil {
			return nil
		}
		sp = env.vc.eng.prog.Package(tp)
		name = name[i+1:]
	} else {
		sp = env.pkg
		if sp == nil && env.tpkg != nil {
			sp = env.vc.eng.prog.Package(env.tpkg)
		}
	}
	if sp == nil {
		return nil
	}
	if g, ok := sp.Members[name].(*ssa.Global); ok {
		return g
	}
	return nil
}

func (env *Env) lookupConst(pkgName, name string) (Term, bool) {
	var tp *types.Package
	if pkgName == "" {
		tp = env.typesPkg()
	} else {
		tp = env.lookupPkg(pkgName)
	}
	if tp == nil {
		return Term{}, false
	}
	if c, ok := tp.Scope().Lookup(name).(*types.Const); ok {
		return env.vc.constVal(c.Val(), c.Type()), true
	}
	return Term{}, false
}

func (vc *VC) evalBool(env *Env, e CExpr) string {
	t := vc.evalTerm(env, e)
	if t.Sort != SBool {
		vc.unsup("contract expression is not boolean (sort %s)", t.Sort)
	}
	return t.S
}

func (vc *VC) localCell(env *Env, name string) (Term, bool) {
	fr := env.fr
	if fr == nil {
		return Term{}, false
	}
	base := name
	ord := -1
	if i := strings.Index(name, "#"); i > 0 {
		base = name[:i]
		fmt.Sscanf(name[i+1:], "%d", &ord)
	}
	cands := fr.allocByName[base]
	if len(cands) == 0 {
		return Term{}, false
	}
	var a *ssa.Alloc
	if ord >= 0 {
		if ord >= len(cands) {
			vc.unsup("local %s: only %d declarations", name, len(cands))
		}
		a = cands[ord]
	} else {
		// prefer the declaration that dominates the current point
		var doms []*ssa.Alloc
		pt := fr.curLoopHdr
		if pt == nil {
			pt = fr.curBlock
		}
		for _, c := range cands {
			if pt == nil || c.Block().Dominates(pt) {
				doms = append(doms, c)
			}
		}
		if len(doms) == 0 {
			doms = cands
		}
		if len(doms) > 1 {
			// still ambiguous: take the innermost (last declared)
			a = doms[len(doms)-1]
		} else {
			a = doms[0]
		}
	}
	s, ok := fr.vals[a]
	if !ok {
		et := a.Type().(*types.Pointer).Elem()
		return Term{S: vc.zeroOf(et), Sort: vc.sortOf(et), T: et}, true
	}
	if s.L != nil {
		return vc.load(env.cur, s.L), true
	}
	// heap-allocated local struct: the pointer itself
	return s.T, true
}

func (vc *VC) evalIdent(env *Env, name string) Term {
	if t, ok := env.vars[name]; ok {
		return t
	}
	switch name {
	case "result":
		if len(env.results) < 1 {
			vc.unsup("'result' used where no result is available")
		}
		return env.results[0]
	}
	if strings.HasPrefix(name, "result") {
		var k int
		if _, err := fmt.Sscanf(name, "result%d", &k); err == nil && k < len(env.results) {
			return env.results[k]
		}
	}
	if strings.HasPrefix(name, "#") {
		// loop-header phi by comment (e.g. #rangeindex)
		if env.fr != nil && env.fr.curLoopHdr != nil {
			for _, in := range env.fr.curLoopHdr.Instrs {
				if phi, ok := in.(*ssa.Phi); ok && phi.Comment == name[1:] {
					return env.fr.vals[phi].T
				}
			}
		}
		vc.unsup("unknown special identifier %s", name)
	}
	if t, ok := vc.localCell(env, name); ok {
		return t
	}
	if env.fr != nil {
		if t, ok := vc.freeVarValue(env.fr, env.cur, name); ok {
			return t
		}
	}
	if env.oldVars != nil {
		if t, ok := env.oldVars[name]; ok {
			return t
		}
	}
	if g := env.lookupGlobal(name); g != nil {
		s := vc.globalSym(env.cur, g)
		if s.L != nil {
			return vc.load(env.cur, s.L)
		}
		return s.T
	}
	if c, ok := env.lookupConst("", name); ok {
		return c
	}
	var locals []string
	if env.fr != nil {
		for k := range env.fr.allocByName {
			locals = append(locals, k)
		}
		sort.Strings(locals)
	}
	vc.unsup("unknown identifier %q in contract (locals in scope of %v: %s)", name, env.fr != nil, strings.Join(locals, " "))
	return Term{}
}

func derefNamedStruct(t types.Type) (types.Type, *types.Struct, bool) {
	if t == nil {
		return nil, nil, false
	}
	isPtr := false
	if p, ok := t.Underlying().(*types.Pointer); ok {
		t = p.Elem()
		isPtr = true
	}
	st, ok := t.Underlying().(*types.Struct)
	if !ok {
		return nil, nil, false
	}
	return t, st, isPtr
}

// fieldLVal resolves x.name (following embedded fields) to an lvalue; nil if x is a struct value.
func (vc *VC) fieldLVal(env *Env, x Term, name string, needHeap bool) *LVal {
	st := env.cur
	t, stt, isPtr := derefNamedStruct(x.T)
	if stt == nil {
		vc.unsup("field %s of non-struct (type %v)", name, x.T)
	}
	if !isPtr {
		return nil
	}
	// ghost field?
	if gk, ok := vc.eng.ghostKey(t, name); ok {
		return &LVal{Kind: LField, Key: gk, Ref: x.S, T: nil}
	}
	obj, index, _ := types.LookupFieldOrMethod(x.T, true, nil, name)
	if obj == nil {
		// unexported field of another package: search manually
		index = findFieldPath(stt, name)
		if index == nil {
			vc.unsup("no field %s in %s", name, t)
		}
	}
	ref := x.S
	curT := t
	curS := stt
	for n, i := range index {
		f := curS.Field(i)
		last := n == len(index)-1
		switch u := f.Type().Underlying().(type) {
		case *types.Struct:
			ref = vc.fld(curT, f.Name(), ref)
			if last {
				return &LVal{Kind: LPtr, Ref: ref, T: types.NewPointer(f.Type()), Key: "@composite"}
			}
			curT, curS = f.Type(), u
		case *types.Array:
			if last {
				return &LVal{Kind: LPtr, Ref: vc.fld(curT, f.Name(), ref), T: types.NewPointer(f.Type()), Key: "@composite"}
			}
			vc.unsup("field path through array")
		case *types.Pointer:
			key, _ := vc.fieldKey(curT, curS, i)
			if last {
				return &LVal{Kind: LField, Key: key, Ref: ref, T: f.Type()}
			}
			ref = sel(vc.heapGet(st, key).S, ref)
			curT = u.Elem()
			cs, ok := curT.Underlying().(*types.Struct)
			if !ok {
				vc.unsup("embedded pointer to non-struct")
			}
			curS = cs
		default:
			key, _ := vc.fieldKey(curT, curS, i)
			if !last {
				vc.unsup("field path through non-struct")
			}
			return &LVal{Kind: LField, Key: key, Ref: ref, T: f.Type()}
		}
	}
	return nil
}

func findFieldPath(st *types.Struct, name string) []int {
	for i := 0; i < st.NumFields(); i++ {
		if st.Field(i).Name() == name {
			return []int{i}
		}
	}
	for i := 0; i < st.NumFields(); i++ {
		f := st.Field(i)
		if !f.Embedded() {
			continue
		}
		ft := f.Type()
		if p, ok := ft.Underlying().(*types.Pointer); ok {
			ft = p.Elem()
		}
		if sub, ok := ft.Underlying().(*types.Struct); ok {
			if p := findFieldPath(sub, name); p != nil {
				return append([]int{i}, p...)
			}
		}
	}
	return nil
}

func (vc *VC) coerce(a, b Term) (Term, Term) {
	if a.Sort == b.Sort {
		return a, b
	}
	// integer literal against bit-vector
	if w, ok := isBV(a.Sort); ok && b.Sort == SInt {
		if k, ok2 := constIntOf(b.S); ok2 {
			return a, Term{S: bvLit(big.NewInt(k), w), Sort: a.Sort, T: a.T}
		}
		return Term{S: "(bv2nat " + a.S + ")", Sort: SInt}, b
	}
	if w, ok := isBV(b.Sort); ok && a.Sort == SInt {
		if k, ok2 := constIntOf(a.S); ok2 {
			return Term{S: bvLit(big.NewInt(k), w), Sort: b.Sort, T: b.T}, b
		}
		return a, Term{S: "(bv2nat " + b.S + ")", Sort: SInt}
	}
	wa, oka := isBV(a.Sort)
	wb, okb := isBV(b.Sort)
	if oka && okb {
		if wa < wb {
			return Term{S: fmt.Sprintf("((_ zero_extend %d) %s)", wb-wa, a.S), Sort: b.Sort, T: b.T}, b
		}
		return a, Term{S: fmt.Sprintf("((_ zero_extend %d) %s)", wa-wb, b.S), Sort: a.Sort, T: a.T}
	}
	if a.Sort == "Real" && b.Sort == SInt {
		return a, Term{S: "(to_real " + b.S + ")", Sort: "Real"}
	}
	if b.Sort == "Real" && a.Sort == SInt {
		return Term{S: "(to_real " + a.S + ")", Sort: "Real"}, b
	}
	vc.unsup("sort mismatch in contract: %s vs %s (%s, %s)", a.Sort, b.Sort, a.S, b.S)
	return a, b
}

func (vc *VC) coerceTo(a Term, sort string) Term {
	if a.Sort == sort {
		return a
	}
	if w, ok := isBV(sort); ok && a.Sort == SInt {
		if k, ok2 := constIntOf(a.S); ok2 {
			return Term{S: bvLit(big.NewInt(k), w), Sort: sort}
		}
		return Term{S: fmt.Sprintf("((_ int2bv %d) %s)", w, a.S), Sort: sort}
	}
	if _, ok := isBV(a.Sort); ok && sort == SInt {
		return Term{S: "(bv2nat " + a.S + ")", Sort: SInt}
	}
	wa, oka := isBV(a.Sort)
	wb, okb := isBV(sort)
	if oka && okb && wa < wb {
		return Term{S: fmt.Sprintf("((_ zero_extend %d) %s)", wb-wa, a.S), Sort: sort}
	}
	vc.unsup("cannot coerce %s (%s) to %s", a.S, a.Sort, sort)
	return a
}

func (vc *VC) evalTerm(env *Env, e CExpr) Term {
	switch t := e.(type) {
	case CLit:
		switch t.Kind {
		case "int":
			bi, ok := new(big.Int).SetString(t.Val, 0)
			if !ok {
				vc.unsup("bad integer literal %s", t.Val)
			}
			return Term{S: intLit(bi), Sort: SInt, T: types.Typ[types.Int]}
		case "bool":
			return Term{S: t.Val, Sort: SBool, T: types.Typ[types.Bool]}
		case "str":
			return vc.strLit(t.Val)
		case "char":
			return Term{S: bvLit(big.NewInt(int64(t.Val[0])), 8), Sort: bvSort(8), T: types.Typ[types.Uint8]}
		case "nil":
			return Term{S: "0", Sort: SInt, T: types.Typ[types.UntypedNil]}
		}
	case CIdent:
		return vc.evalIdent(env, t.Name)
	case CField:
		// pkg.Const / pkg.Global
		if id, ok := t.X.(CIdent); ok {
			if _, isVar := env.vars[id.Name]; !isVar {
				if _, isLocal := vc.localCell(env, id.Name); !isLocal && (env.oldVars == nil || !hasKey(env.oldVars, id.Name)) {
					if tp := env.lookupPkg(id.Name); tp != nil && env.lookupGlobal(id.Name) == nil {
						if c, ok := env.lookupConst(id.Name, t.Name); ok {
							return c
						}
						if g := env.lookupGlobal(id.Name + "." + t.Name); g != nil {
							s := vc.globalSym(env.cur, g)
							if s.L != nil {
								return vc.load(env.cur, s.L)
							}
							return s.T
						}
					}
				}
			}
		}
		x := vc.evalTerm(env, t.X)
		if x.Sort == SSlice {
			switch t.Name {
			case "base":
				return tInt("(sl.base " + x.S + ")")
			case "off":
				return tInt("(sl.off " + x.S + ")")
			}
		}
		l := vc.fieldLVal(env, x, t.Name, false)
		if l == nil {
			// struct value
			tt, stt, _ := derefNamedStruct(x.T)
			for i := 0; i < stt.NumFields(); i++ {
				if stt.Field(i).Name() == t.Name {
					acc := q("V!" + structName(tt) + "." + t.Name)
					ft := stt.Field(i).Type()
					return Term{S: app(acc, x.S), Sort: vc.sortOf(ft), T: ft}
				}
			}
			vc.unsup("no field %s", t.Name)
		}
		if l.Key == "@composite" {
			return Term{S: l.Ref, Sort: SInt, T: l.T}
		}
		if l.T == nil { // ghost
			h := vc.heapGet(env.cur, l.Key)
			return Term{S: sel(h.S, l.Ref), Sort: arrSortElem(h.Sort)}
		}
		h := vc.heapGet(env.cur, l.Key)
		if !strings.Contains(l.Ref, "!b") && !strings.Contains(l.Ref, "scratch!") {
			// heap closure facts for reference-typed fields read by a contract (ground terms only)
			switch l.T.Underlying().(type) {
			case *types.Pointer, *types.Map, *types.Interface, *types.Chan, *types.Slice:
				ref := l.Ref
				vc.assumeAllocated(env.cur, l.T, sel(h.S, ref))
				vc.closedFact(env.cur, l.Key, l.T, ref, func(b string) string { return sel(b, ref) })
			}
		}
		return Term{S: sel(h.S, l.Ref), Sort: vc.sortOf(l.T), T: l.T}
	case CIndex:
		x := vc.evalTerm(env, t.X)
		i := vc.evalTerm(env, t.I)
		switch {
		case x.Sort == SSlice:
			if x.T == nil {
				vc.unsup("index of untyped slice")
			}
			et := x.T.Underlying().(*types.Slice).Elem()
			key := vc.memKey(et)
			i = vc.coerceTo(i, SInt)
			return Term{S: app(vc.elemFn(vc.sortOf(et)), sel(vc.heapGet(env.cur, key).S, "(sl.base "+x.S+")"), x.S, i.S), Sort: vc.sortOf(et), T: et}
		case x.Sort == SStr:
			i = vc.coerceTo(i, SInt)
			return Term{S: "(s_at " + x.S + " " + i.S + ")", Sort: bvSort(8), T: types.Typ[types.Uint8]}
		case strings.HasPrefix(x.Sort, "(Array "):
			var et types.Type
			if x.T != nil {
				if a, ok := x.T.Underlying().(*types.Array); ok {
					et = a.Elem()
				}
			}
			return Term{S: sel(x.S, i.S), Sort: arrSortElem(x.Sort), T: et}
		case x.T != nil:
			switch u := x.T.Underlying().(type) {
			case *types.Map:
				_, vk, _ := vc.mapKeys(u)
				i = vc.coerceTo(i, vc.sortOf(u.Key()))
				return Term{S: sel(sel(vc.heapGet(env.cur, vk).S, x.S), i.S), Sort: vc.sortOf(u.Elem()), T: u.Elem()}
			case *types.Pointer:
				if a, ok := u.Elem().Underlying().(*types.Array); ok {
					key := vc.memKey(a.Elem())
					i = vc.coerceTo(i, SInt)
					return Term{S: sel(sel(vc.heapGet(env.cur, key).S, x.S), i.S), Sort: vc.sortOf(a.Elem()), T: a.Elem()}
				}
			}
		}
		vc.unsup("cannot index term of sort %s", x.Sort)
	case CSlice:
		x := vc.evalTerm(env, t.X)
		lo := "0"
		if t.Lo != nil {
			lo = vc.coerceTo(vc.evalTerm(env, t.Lo), SInt).S
		}
		switch x.Sort {
		case SStr:
			hi := "(s_len " + x.S + ")"
			if t.Hi != nil {
				hi = vc.coerceTo(vc.evalTerm(env, t.Hi), SInt).S
			}
			return Term{S: "(s_sub " + x.S + " " + lo + " " + hi + ")", Sort: SStr, T: x.T}
		case SSlice:
			hi := "(sl.len " + x.S + ")"
			if t.Hi != nil {
				hi = vc.coerceTo(vc.evalTerm(env, t.Hi), SInt).S
			}
			return Term{S: fmt.Sprintf("(mk-slice (sl.base %s) (+ (sl.off %s) %s) (- %s %s) (- (sl.cap %s) %s))", x.S, x.S, lo, hi, lo, x.S, lo), Sort: SSlice, T: x.T}
		}
		vc.unsup("cannot slice sort %s", x.Sort)
	case CUn:
		x := vc.evalTerm(env, t.X)
		switch t.Op {
		case "!":
			return tBool(mkNot(x.S))
		case "-":
			if _, ok := isBV(x.Sort); ok {
				return Term{S: "(bvneg " + x.S + ")", Sort: x.Sort, T: x.T}
			}
			return Term{S: "(- " + x.S + ")", Sort: x.Sort, T: x.T}
		case "^":
			return Term{S: "(bvnot " + x.S + ")", Sort: x.Sort, T: x.T}
		}
	case CBin:
		return vc.evalBin(env, t)
	case CQuant:
		var names []string
		var terms []Term
		var decls []string
		var guards []string
		for _, v := range t.Vars {
			vc.nfresh++
			bn := q(fmt.Sprintf("%s!b%d", v.Name, vc.nfresh))
			var sort string
			var gt types.Type
			if ss, ok := specSortName(v.Type); ok {
				sort = ss
			} else {
				gt = env.lookupType(v.Type)
				if gt == nil {
					vc.unsup("unknown type %s in quantifier", v.Type)
				}
				sort = vc.sortOf(gt)
			}
			names = append(names, v.Name)
			terms = append(terms, Term{S: bn, Sort: sort, T: gt})
			decls = append(decls, "("+bn+" "+sort+")")
			if gt != nil {
				if isInt, uns, w := basicInfo(gt); isInt && !uns && w < 64 {
					lo := new(big.Int).Neg(new(big.Int).Lsh(big.NewInt(1), uint(w-1)))
					hi := new(big.Int).Sub(new(big.Int).Lsh(big.NewInt(1), uint(w-1)), big.NewInt(1))
					guards = append(guards, fmt.Sprintf("(<= %s %s)", intLit(lo), bn), fmt.Sprintf("(<= %s %s)", bn, intLit(hi)))
				}
			}
		}
		if t.Array {
			// comprehension: a fresh array constant A with (forall p. A[p] == e(p)); the same body text (same heap
			// versions) yields the same constant, so that states differing only in unrelated memory share it
			if len(terms) != 1 {
				vc.unsup("array comprehension takes one index variable")
			}
			bt := vc.evalTerm(env.withBound(names, terms), t.Body)
			key := bt.Sort + "|" + strings.ReplaceAll(bt.S, terms[0].S, "?")
			if vc.arrCache == nil {
				vc.arrCache = map[string]string{}
			}
			as := arrSort(terms[0].Sort, bt.Sort)
			if a, ok := vc.arrCache[key]; ok {
				return Term{S: a, Sort: as}
			}
			a := vc.fresh("arr", as)
			vc.emit(fmt.Sprintf("(assert (forall (%s) (! (= (select %s %s) %s) :pattern ((select %s %s)))))", strings.Join(decls, " "), a, terms[0].S, bt.S, a, terms[0].S))
			vc.arrCache[key] = a
			return Term{S: a, Sort: as}
		}
		body := vc.evalBool(env.withBound(names, terms), t.Body)
		g := mkAnd(guards...)
		if t.Forall {
			return tBool("(forall (" + strings.Join(decls, " ") + ") " + mkImp(g, body) + ")")
		}
		return tBool("(exists (" + strings.Join(decls, " ") + ") " + mkAnd(g, body) + ")")
	case CCall:
		return vc.evalCall(env, t)
	}
	vc.unsup("cannot evaluate contract expression %#v", e)
	return Term{}
}

func hasKey(m map[string]Term, k string) bool { _, ok := m[k]; return ok }

func specSortName(n string) (string, bool) {
	switch n {
	case "Int":
		return SInt, true
	case "Bool":
		return SBool, true
	case "Str":
		return SStr, true
	case "Ref":
		return SInt, true
	case "BV8":
		return bvSort(8), true
	case "BV16":
		return bvSort(16), true
	case "BV32":
		return bvSort(32), true
	case "BV64":
		return bvSort(64), true
	}
	return "", false
}

func (vc *VC) evalBin(env *Env, t CBin) Term {
	switch t.Op {
	case "&&":
		return tBool(mkAnd(vc.evalBool(env, t.L), vc.evalBool(env, t.R)))
	case "||":
		return tBool(mkOr(vc.evalBool(env, t.L), vc.evalBool(env, t.R)))
	case "==>":
		return tBool(mkImp(vc.evalBool(env, t.L), vc.evalBool(env, t.R)))
	case "<==>":
		return tBool(mkEq(vc.evalBool(env, t.L), vc.evalBool(env, t.R)))
	}
	a := vc.evalTerm(env, t.L)
	b := vc.evalTerm(env, t.R)
	// nil against slice
	if a.Sort == SSlice && b.S == "0" && b.Sort == SInt {
		b = Term{S: "(mk-slice 0 0 0 0)", Sort: SSlice}
		if t.Op == "==" {
			return tBool("(= (sl.base " + a.S + ") 0)")
		}
		if t.Op == "!=" {
			return tBool("(not (= (sl.base " + a.S + ") 0))")
		}
	}
	a, b = vc.coerce(a, b)
	_, bv := isBV(a.Sort)
	switch t.Op {
	case "==":
		return tBool(mkEq(a.S, b.S))
	case "!=":
		return tBool(mkNot(mkEq(a.S, b.S)))
	case "<", "<=", ">", ">=":
		if bv {
			f := map[string]string{"<": "bvult", "<=": "bvule", ">": "bvugt", ">=": "bvuge"}[t.Op]
			return tBool("(" + f + " " + a.S + " " + b.S + ")")
		}
		return tBool("(" + t.Op + " " + a.S + " " + b.S + ")")
	case "+", "-", "*":
		if bv {
			f := map[string]string{"+": "bvadd", "-": "bvsub", "*": "bvmul"}[t.Op]
			return Term{S: "(" + f + " " + a.S + " " + b.S + ")", Sort: a.Sort, T: a.T}
		}
		return Term{S: "(" + t.Op + " " + a.S + " " + b.S + ")", Sort: a.Sort, T: a.T}
	case "/":
		if bv {
			return Term{S: "(bvudiv " + a.S + " " + b.S + ")", Sort: a.Sort, T: a.T}
		}
		if k, ok := constIntOf(b.S); ok && k > 0 {
			return Term{S: fmt.Sprintf("(ite (>= %s 0) (div %s %d) (- (div (- %s) %d)))", a.S, a.S, k, a.S, k), Sort: a.Sort, T: a.T}
		}
		return Term{S: "(go_div " + a.S + " " + b.S + ")", Sort: a.Sort, T: a.T}
	case "%":
		if bv {
			return Term{S: "(bvurem " + a.S + " " + b.S + ")", Sort: a.Sort, T: a.T}
		}
		if k, ok := constIntOf(b.S); ok && k > 0 {
			return Term{S: fmt.Sprintf("(ite (>= %s 0) (mod %s %d) (- (mod (- %s) %d)))", a.S, a.S, k, a.S, k), Sort: a.Sort, T: a.T}
		}
		return Term{S: "(go_mod " + a.S + " " + b.S + ")", Sort: a.Sort, T: a.T}
	case "&", "|", "^", "<<", ">>":
		if bv {
			f := map[string]string{"&": "bvand", "|": "bvor", "^": "bvxor", "<<": "bvshl", ">>": "bvlshr"}[t.Op]
			return Term{S: "(" + f + " " + a.S + " " + b.S + ")", Sort: a.Sort, T: a.T}
		}
	}
	vc.unsup("operator %s on sort %s", t.Op, a.Sort)
	return Term{}
}

func (vc *VC) evalCall(env *Env, t CCall) Term {
	switch t.Fn {
	case "old":
		n := *env
		n.cur = env.old
		n.fr = nil
		if env.oldVars != nil {
			n.vars = map[string]Term{}
			for k, v := range env.vars {
				n.vars[k] = v
			}
			for k, v := range env.oldVars {
				if _, bound := env.vars[k]; !bound {
					n.vars[k] = v
				}
			}
		}
		return vc.evalTerm(&n, t.Args[0])
	case "len":
		x := vc.evalTerm(env, t.Args[0])
		switch x.Sort {
		case SSlice:
			return tInt("(sl.len " + x.S + ")")
		case SStr:
			return tInt("(s_len " + x.S + ")")
		}
		if x.T != nil {
			return vc.lenOf(env.cur, x, x.T)
		}
		vc.unsup("len of sort %s", x.Sort)
	case "cap":
		x := vc.evalTerm(env, t.Args[0])
		return tInt("(sl.cap " + x.S + ")")
	case "has":
		m := vc.evalTerm(env, t.Args[0])
		k := vc.evalTerm(env, t.Args[1])
		mt := m.T.Underlying().(*types.Map)
		dk, _, _ := vc.mapKeys(mt)
		k = vc.coerceTo(k, vc.sortOf(mt.Key()))
		return tBool(mkAnd("(not (= "+m.S+" 0))", sel(sel(vc.heapGet(env.cur, dk).S, m.S), k.S)))
	case "ite":
		c := vc.evalBool(env, t.Args[0])
		a := vc.evalTerm(env, t.Args[1])
		b := vc.evalTerm(env, t.Args[2])
		a, b = vc.coerce(a, b)
		return Term{S: mkIte(c, a.S, b.S), Sort: a.Sort, T: a.T}
	case "int":
		x := vc.evalTerm(env, t.Args[0])
		return vc.coerceTo(x, SInt)
	case "bv8", "bv16", "bv32", "bv64":
		var w int
		fmt.Sscanf(t.Fn, "bv%d", &w)
		x := vc.evalTerm(env, t.Args[0])
		if wx, ok := isBV(x.Sort); ok {
			switch {
			case wx == w:
				return x
			case wx < w:
				return Term{S: fmt.Sprintf("((_ zero_extend %d) %s)", w-wx, x.S), Sort: bvSort(w)}
			default:
				return Term{S: fmt.Sprintf("((_ extract %d 0) %s)", w-1, x.S), Sort: bvSort(w)}
			}
		}
		return vc.coerceTo(x, bvSort(w))
	case "fresh":
		x := vc.evalTerm(env, t.Args[0])
		oa := vc.heapGet(env.old, vc.allocKey())
		ref := x.S
		if x.Sort == SSlice {
			ref = "(sl.base " + x.S + ")"
		}
		return tBool(fmt.Sprintf("(and (>= %s %s) (= (refkind %s) 0) (= (rootof %s) %s))", ref, oa.S, ref, ref, ref))
	case "atlabel":
		// atlabel(L, e): e evaluated in the state recorded by `label L at call ...`. Where the label has not been
		// passed (reached(L) is false there) the value is unspecified: e is evaluated in the current state.
		id, ok := t.Args[0].(CIdent)
		if !ok || env.fr == nil || !env.fr.spec.hasLabel(id.Name) {
			vc.unsup("atlabel(): unknown label")
		}
		if env.fr.labels == nil || env.fr.labels[id.Name] == nil {
			return vc.evalTerm(env, t.Args[1])
		}
		n := *env
		n.cur = env.fr.labels[id.Name]
		return vc.evalTerm(&n, t.Args[1])
	case "heapslice":
		// heapslice(s): the backing array of s is an array allocated on its own (by make/append/a literal), not
		// an array embedded in a struct or another array
		x := vc.evalTerm(env, t.Args[0])
		if x.Sort != SSlice {
			vc.unsup("heapslice(): slice expected")
		}
		return tBool(fmt.Sprintf("(or (= (sl.base %s) 0) (and (= (refkind (sl.base %s)) 0) (= (rootof (sl.base %s)) (sl.base %s))))", x.S, x.S, x.S, x.S))
	case "fmtv":
		// fmtv(s): the text fmt's %v prints for slice s (uninterpreted function of its elements)
		x := vc.evalTerm(env, t.Args[0])
		if x.Sort != SSlice || x.T == nil {
			vc.unsup("fmtv(): slice expected")
		}
		return Term{S: vc.fmtvTerm(env.cur, x), Sort: SStr, T: types.Typ[types.String]}
	case "reached":
		// reached(L): the execution passed the program point labelled L (in this iteration of the enclosing loop)
		id, ok := t.Args[0].(CIdent)
		if !ok || env.fr == nil || !env.fr.spec.hasLabel(id.Name) {
			vc.unsup("reached(): unknown label")
		}
		if pc, ok := env.fr.labelPC[id.Name]; ok {
			return tBool(pc)
		}
		return tBool("false")
	case "pre":
		// pre(e): e evaluated in the state in which the current loop was entered
		li := vc.curLoop(env)
		n := *env
		n.cur = li.preSt
		return vc.evalTerm(&n, t.Args[0])
	case "newinloop":
		// newinloop(x): x was allocated after the current loop was entered
		li := vc.curLoop(env)
		x := vc.evalTerm(env, t.Args[0])
		ref := x.S
		if x.Sort == SSlice {
			ref = "(sl.base " + x.S + ")"
		}
		return tBool(fmt.Sprintf("(and (>= %s %s) (= (refkind %s) 0) (= (rootof %s) %s))", ref, li.allocPre, ref, ref, ref))
	case "wasalloc":
		// wasalloc(r): r (or the object it is embedded in) existed when the function was entered
		x := vc.evalTerm(env, t.Args[0])
		return tBool(fmt.Sprintf("(< (rootof %s) %s)", x.S, q("H0 ALLOC")))
	case "allocated":
		x := vc.evalTerm(env, t.Args[0])
		oa := vc.heapGet(env.cur, vc.allocKey())
		// allocated(x): x is not a reference that a later allocation can return (nil included)
		return tBool(fmt.Sprintf("(and (< %s %s) (< (rootof %s) %s))", x.S, oa.S, x.S, oa.S))
	case "str":
		// str(bs): the string with the current contents of byte slice bs
		x := vc.evalTerm(env, t.Args[0])
		key := vc.memKey(types.Typ[types.Uint8])
		mem := vc.heapGet(env.cur, key)
		return Term{S: fmt.Sprintf("(s_of (select %s (sl.base %s)) (sl.off %s) (sl.len %s))", mem.S, x.S, x.S, x.S), Sort: SStr, T: types.Typ[types.String]}
	case "bytes_eq":
		// bytes_eq(a, b): same length and contents (slices, current state)
		a := vc.evalTerm(env, t.Args[0])
		b := vc.evalTerm(env, t.Args[1])
		return tBool(vc.seqEq(env, a, b))
	case "unchanged":
		// unchanged(s): contents of slice window equal to old
		a := vc.evalTerm(env, t.Args[0])
		key := vc.memKey(a.T.Underlying().(*types.Slice).Elem())
		m1 := vc.heapGet(env.cur, key)
		m0 := vc.heapGet(env.old, key)
		vc.nfresh++
		i := fmt.Sprintf("i!u%d", vc.nfresh)
		return tBool(fmt.Sprintf("(forall ((%s Int)) (! (=> (and (<= 0 %s) (< %s (sl.len %s))) (= (select (select %s (sl.base %s)) (+ (sl.off %s) %s)) (select (select %s (sl.base %s)) (+ (sl.off %s) %s)))) :pattern ((select (select %s (sl.base %s)) (+ (sl.off %s) %s)))))",
			i, i, i, a.S, m1.S, a.S, a.S, i, m0.S, a.S, a.S, i, m1.S, a.S, a.S, i))
	case "visited":
		// visited(k): key k already produced by the (single) map range of the current loop
		if env.fr == nil {
			vc.unsup("visited() outside a loop")
		}
		k := vc.evalTerm(env, t.Args[0])
		key := vc.rangeKeyOfLoop(env.fr)
		h := vc.heapGet(env.cur, key)
		k = vc.coerceTo(k, strings.TrimPrefix(strings.Split(h.Sort, " ")[1], ""))
		return tBool(sel(h.S, k.S))
	case "box":
		// box(x): the interface value holding the string / integer x
		x := vc.evalTerm(env, t.Args[0])
		var tt types.Type = types.Typ[types.String]
		if x.T != nil {
			tt = x.T
		}
		return Term{S: fmt.Sprintf("(%s %d %s)", vc.boxCtor(x.Sort), vc.eng.typeTag(tt), x.S), Sort: SInt}
	case "unboxstr":
		x := vc.evalTerm(env, t.Args[0])
		return Term{S: app(vc.boxFn(SStr), x.S), Sort: SStr, T: types.Typ[types.String]}
	case "ref":
		// ref(T, e): the reference e viewed as a *T (spec functions return untyped references)
		var tname string
		switch a := t.Args[0].(type) {
		case CIdent:
			tname = a.Name
		case CField:
			if pid, ok := a.X.(CIdent); ok {
				tname = pid.Name + "." + a.Name
			}
		}
		if tname == "" {
			vc.unsup("ref(Type, expr) expected")
		}
		tn := env.lookupType(tname)
		if tn == nil {
			vc.unsup("ref(): unknown type %s", tname)
		}
		x := vc.evalTerm(env, t.Args[1])
		return Term{S: x.S, Sort: SInt, T: types.NewPointer(tn)}
	case "cast":
		// cast("go type expression", e): the reference e viewed as a value of that (map, pointer) type
		lit, ok := t.Args[0].(CLit)
		if !ok || lit.Kind != "str" || len(t.Args) != 2 {
			vc.unsup("cast(\"type\", expr) expected")
		}
		tv, err := types.Eval(vc.eng.fset, env.typesPkg(), token.NoPos, lit.Val)
		if err != nil || !tv.IsType() {
			vc.unsup("cast: %q is not a type here", lit.Val)
		}
		x := vc.evalTerm(env, t.Args[1])
		return Term{S: x.S, Sort: SInt, T: tv.Type}
	case "heap":
		// heap(Type.field): the whole field map (object reference -> value) in the current state
		cf, ok := t.Args[0].(CField)
		if !ok {
			vc.unsup("heap(Type.field) expected")
		}
		var tn types.Type
		if id, ok := cf.X.(CIdent); ok {
			tn = env.lookupType(id.Name)
		} else if pf, ok := cf.X.(CField); ok {
			if pid, ok := pf.X.(CIdent); ok {
				tn = env.lookupType(pid.Name + "." + pf.Name)
			}
		}
		if tn == nil {
			vc.unsup("heap(): unknown type")
		}
		stt, ok := tn.Underlying().(*types.Struct)
		if !ok {
			vc.unsup("heap(): not a struct type")
		}
		for i := 0; i < stt.NumFields(); i++ {
			if stt.Field(i).Name() == cf.Name {
				key, fs := vc.fieldKey(tn, stt, i)
				if fs == "" {
					vc.unsup("heap(): composite field")
				}
				h := vc.heapGet(env.cur, key)
				return Term{S: h.S, Sort: h.Sort}
			}
		}
		if gk, ok := vc.eng.ghostKey(tn, cf.Name); ok {
			h := vc.heapGet(env.cur, gk)
			return Term{S: h.S, Sort: h.Sort}
		}
		vc.unsup("heap(): no field %s", cf.Name)
	case "rawbyte":
		// rawbyte(r, j): byte j of backing array r in the current byte memory
		r := vc.evalTerm(env, t.Args[0])
		j := vc.evalTerm(env, t.Args[1])
		key := vc.memKey(types.Typ[types.Uint8])
		return Term{S: sel(sel(vc.heapGet(env.cur, key).S, r.S), j.S), Sort: bvSort(8), T: types.Typ[types.Uint8]}
	case "dyntype":
		x := vc.evalTerm(env, t.Args[0])
		return tInt("(dyntype " + x.S + ")")
	case "typetag":
		// typetag(T), typetag(*T), typetag(pkg.T): the tag dyntype() yields for values of that dynamic type
		var tyName func(e CExpr) string
		tyName = func(e CExpr) string {
			switch a := e.(type) {
			case CIdent:
				return a.Name
			case CField:
				if id, ok := a.X.(CIdent); ok {
					return id.Name + "." + a.Name
				}
			case CUn:
				if a.Op == "*" {
					return "*" + tyName(a.X)
				}
			}
			return ""
		}
		if lit, ok := t.Args[0].(CLit); ok && lit.Kind == "str" {
			// typetag("map[string]struct{}"): an unnamed type, spelled as go/types prints it
			return tInt(fmt.Sprint(vc.eng.typeTagNamed(lit.Val)))
		}
		name := tyName(t.Args[0])
		tt := env.lookupType(name)
		if tt == nil {
			vc.unsup("typetag: unknown type %s", name)
		}
		return tInt(fmt.Sprint(vc.eng.typeTag(tt)))
	}
	// contract macro (package-level `define`)
	if m, mpkg := vc.eng.macro(env, t.Fn); m != nil {
		if len(m.Params) != len(t.Args) {
			vc.unsup("macro %s expects %d args", t.Fn, len(m.Params))
		}
		if mpkg != nil && mpkg != env.typesPkg() {
			// macro of another package: arguments are evaluated here (by value) and the body is
			// evaluated in the defining package's scope
			n := *env
			n.vars = map[string]Term{}
			for i, p := range m.Params {
				n.vars[p] = vc.evalTerm(env, t.Args[i])
			}
			n.pkg = vc.eng.prog.Package(mpkg)
			n.tpkg = mpkg
			n.fr = nil
			n.oldVars = nil
			return vc.evalTerm(&n, m.Body)
		}
		sub := map[string]CExpr{}
		for i, p := range m.Params {
			sub[p] = t.Args[i]
		}
		return vc.evalTerm(env, substCExpr(m.Body, sub))
	}
	// spec function
	if sig, ok := vc.eng.specSigs[t.Fn]; ok {
		if g, isTable := vc.eng.tableGlobals[sig.File]; isTable {
			vc.ensureMapTable(vc.eng.mapTableFor(g, vc.eng.tableNames[g]))
		} else {
			vc.uses[sig.File] = true
		}
		if len(sig.Args) != len(t.Args) {
			vc.unsup("spec function %s expects %d args", t.Fn, len(sig.Args))
		}
		var args []string
		for i, a := range t.Args {
			x := vc.evalTerm(env, a)
			x = vc.coerceTo(x, sig.Args[i])
			args = append(args, x.S)
		}
		return Term{S: app(t.Fn, args...), Sort: sig.Res}
	}
	// heap-parameterised spec function: name$ takes as first argument the current contents of the
	// backing array of its first slice argument
	if sig, ok := vc.eng.specSigs[t.Fn+"$"]; ok {
		vc.uses[sig.File] = true
		key := vc.memKey(types.Typ[types.Uint8])
		var args []string
		base := ""
		for i, a := range t.Args {
			x := vc.evalTerm(env, a)
			x = vc.coerceTo(x, sig.Args[i+1])
			if base == "" && x.Sort == SSlice {
				base = "(sl.base " + x.S + ")"
				// the backing array passed is that of the slice's own element type ([]byte, []string, ...)
				if x.T != nil {
					if sl, ok := x.T.Underlying().(*types.Slice); ok {
						key = vc.memKey(sl.Elem())
					}
				}
			}
			args = append(args, x.S)
		}
		if base == "" {
			vc.unsup("spec function %s needs a slice argument", t.Fn)
		}
		args = append([]string{sel(vc.heapGet(env.cur, key).S, base)}, args...)
		return Term{S: app(t.Fn+"$", args...), Sort: sig.Res}
	}
	vc.unsup("unknown function %s in contract", t.Fn)
	return Term{}
}

func (vc *VC) rangeKeyOfLoop(fr *Frame) string {
	h := fr.curLoopHdr
	if h == nil {
		vc.unsup("visited(): not at a loop")
	}
	li := fr.loops[h]
	for b := range li.blocks {
		for _, in := range b.Instrs {
			if n, ok := in.(*ssa.Next); ok {
				if r, ok := n.Iter.(*ssa.Range); ok {
					return fmt.Sprintf("RV:%s:%d", fr.fn.String(), r.Pos())
				}
			}
		}
	}
	vc.unsup("visited(): loop has no map range")
	return ""
}

func (vc *VC) seqEq(env *Env, a, b Term) string {
	vc.nfresh++
	i := fmt.Sprintf("i!e%d", vc.nfresh)
	at := func(x Term) (string, string) {
		switch x.Sort {
		case SStr:
			return "(s_len " + x.S + ")", "(s_at " + x.S + " " + i + ")"
		case SSlice:
			et := x.T.Underlying().(*types.Slice).Elem()
			key := vc.memKey(et)
			return "(sl.len " + x.S + ")", app(vc.elemFn(vc.sortOf(et)), sel(vc.heapGet(env.cur, key).S, "(sl.base "+x.S+")"), x.S, i)
		}
		vc.unsup("bytes_eq on sort %s", x.Sort)
		return "", ""
	}
	if strings.Contains(a.S, "(ite ") {
		a.S = vc.define("sq", a.Sort, a.S)
	}
	if strings.Contains(b.S, "(ite ") {
		b.S = vc.define("sq", b.Sort, b.S)
	}
	la, ea := at(a)
	lb, eb := at(b)
	return fmt.Sprintf("(and (= %s %s) (forall ((%s Int)) (! (=> (and (<= 0 %s) (< %s %s)) (= %s %s)) :pattern (%s) :pattern (%s))))", la, lb, i, i, i, la, ea, eb, ea, eb)
}

var _ = constant.MakeBool

func (e *Engine) macro(env *Env, name string) (*Macro, *types.Package) {
	if tp := env.typesPkg(); tp != nil {
		if ps, ok := e.specs[tp.Path()]; ok {
			if m, ok := ps.Macros[name]; ok {
				return m, tp
			}
		}
	}
	if i := strings.Index(name, "."); i >= 0 {
		if tp := env.lookupPkg(name[:i]); tp != nil {
			if ps, ok := e.specs[tp.Path()]; ok {
				if m, ok := ps.Macros[name[i+1:]]; ok {
					return m, tp
				}
			}
		}
	}
	if m, ok := e.trusted.Macros[name]; ok {
		return m, nil
	}
	return nil, nil
}

var substCounter int

func substCExpr(e CExpr, sub map[string]CExpr) CExpr {
	switch t := e.(type) {
	case CIdent:
		if r, ok := sub[t.Name]; ok {
			return r
		}
		return t
	case CField:
		return CField{substCExpr(t.X, sub), t.Name}
	case CIndex:
		return CIndex{substCExpr(t.X, sub), substCExpr(t.I, sub)}
	case CSlice:
		var lo, hi CExpr
		if t.Lo != nil {
			lo = substCExpr(t.Lo, sub)
		}
		if t.Hi != nil {
			hi = substCExpr(t.Hi, sub)
		}
		return CSlice{substCExpr(t.X, sub), lo, hi}
	case CCall:
		var args []CExpr
		for _, a := range t.Args {
			args = append(args, substCExpr(a, sub))
		}
		return CCall{t.Fn, args}
	case CUn:
		return CUn{t.Op, substCExpr(t.X, sub)}
	case CBin:
		return CBin{t.Op, substCExpr(t.L, sub), substCExpr(t.R, sub)}
	case CQuant:
		inner := map[string]CExpr{}
		for k, v := range sub {
			inner[k] = v
		}
		// capture-avoiding: bound variables of the macro body are renamed apart from the arguments
		var vars []CVar
		for _, v := range t.Vars {
			substCounter++
			nn := fmt.Sprintf("%s_m%d", v.Name, substCounter)
			inner[v.Name] = CIdent{nn}
			vars = append(vars, CVar{nn, v.Type})
		}
		return CQuant{Forall: t.Forall, Vars: vars, Body: substCExpr(t.Body, inner), Array: t.Array}
	}
	return e
}

func (vc *VC) curLoop(env *Env) *loopInfo {
	if env.fr == nil || env.fr.curLoopHdr == nil {
		vc.unsup("pre()/newinloop() used outside a loop clause")
	}
	li := env.fr.loops[env.fr.curLoopHdr]
	if li == nil || li.preSt == nil {
		vc.unsup("pre()/newinloop(): loop state not available")
	}
	return li
}

// freeVarValue is the current content of the captured variable `name` of a function literal under verification.
func (vc *VC) freeVarValue(fr *Frame, st *State, name string) (Term, bool) {
	for _, fv := range fr.fn.FreeVars {
		if fv.Name() != name {
			continue
		}
		cell, ok := fr.vals[fv]
		if !ok {
			return Term{}, false
		}
		et := fv.Type().Underlying().(*types.Pointer).Elem()
		switch et.Underlying().(type) {
		case *types.Struct:
			return vc.loadStruct(st, et, cell.T.S), true
		case *types.Array:
			return Term{}, false
		}
		return vc.load(st, &LVal{Kind: LPtr, Key: vc.ptrKey(et), Ref: cell.T.S, T: et}), true
	}
	return Term{}, false
}
