package main

// Contract expression language: lexer + Pratt parser.
//
//   e ::= lit | ident | e.f | e[e] | e[e:e] | f(e,...) | !e | -e | e op e
//       | forall x T, y T :: e | exists x T :: e | (e) | old(e)
//   op: * / % << >> & | ^ + - == != < <= > >= && || ==> <==>
//   T : int | bool | byte | string | *Name | Name | pkg.Name | []T

import (
	"fmt"
	"strings"
	"unicode"
)

type CExpr interface{ cexpr() }

type (
	CLit struct {
		Kind string // int, str, char, bool, nil
		Val  string
	}
	CIdent struct{ Name string }
	CField struct {
		X    CExpr
		Name string
	}
	CIndex struct{ X, I CExpr }
	CSlice struct{ X, Lo, Hi CExpr }
	CCall  struct {
		Fn   string
		Args []CExpr
	}
	CUn struct {
		Op string
		X  CExpr
	}
	CBin struct {
		Op   string
		L, R CExpr
	}
	CQuant struct {
		Forall bool
		Vars   []CVar
		Body   CExpr
		Array  bool // `array p int :: e` : the function p -> e as an SMT array (comprehension)
	}
)

type CVar struct {
	Name string
	Type string
}

func (CLit) cexpr()   {}
func (CIdent) cexpr() {}
func (CField) cexpr() {}
func (CIndex) cexpr() {}
func (CSlice) cexpr() {}
func (CCall) cexpr()  {}
func (CUn) cexpr()    {}
func (CBin) cexpr()   {}
func (CQuant) cexpr() {}

type ctok struct {
	kind string // id int str char op eof
	val  string
}

type clexer struct {
	src  string
	pos  int
	toks []ctok
}

var cops = []string{"<==>", "==>", "::", "==", "!=", "<=", ">=", "&&", "||", "<<", ">>", "&^", "+", "-", "*", "/", "%", "<", ">", "!", "&", "|", "^", "(", ")", "[", "]", ",", ".", ":", "#"}

func clex(src string) ([]ctok, error) {
	var toks []ctok
	i := 0
	for i < len(src) {
		c := src[i]
		if c == ' ' || c == '\t' || c == '\n' {
			i++
			continue
		}
		if unicode.IsLetter(rune(c)) || c == '_' {
			j := i
			for j < len(src) && (unicode.IsLetter(rune(src[j])) || unicode.IsDigit(rune(src[j])) || src[j] == '_') {
				j++
			}
			if j+1 < len(src) && src[j] == '#' && unicode.IsDigit(rune(src[j+1])) {
				j++
				for j < len(src) && unicode.IsDigit(rune(src[j])) {
					j++
				}
			}
			toks = append(toks, ctok{"id", src[i:j]})
			i = j
			continue
		}
		if unicode.IsDigit(rune(c)) {
			j := i
			for j < len(src) && (unicode.IsDigit(rune(src[j])) || unicode.IsLetter(rune(src[j]))) {
				j++
			}
			toks = append(toks, ctok{"int", src[i:j]})
			i = j
			continue
		}
		if c == '"' {
			j := i + 1
			var sb strings.Builder
			for j < len(src) && src[j] != '"' {
				if src[j] == '\\' && j+1 < len(src) {
					j++
					switch src[j] {
					case 'n':
						sb.WriteByte('\n')
					case 'r':
						sb.WriteByte('\r')
					case 't':
						sb.WriteByte('\t')
					case '0':
						sb.WriteByte(0)
					default:
						sb.WriteByte(src[j])
					}
					j++
					continue
				}
				sb.WriteByte(src[j])
				j++
			}
			if j >= len(src) {
				return nil, fmt.Errorf("unterminated string in %q", src)
			}
			toks = append(toks, ctok{"str", sb.String()})
			i = j + 1
			continue
		}
		if c == '\'' {
			j := i + 1
			var ch byte
			if j < len(src) && src[j] == '\\' {
				j++
				switch src[j] {
				case 'n':
					ch = '\n'
				case 'r':
					ch = '\r'
				case 't':
					ch = '\t'
				case '0':
					ch = 0
				default:
					ch = src[j]
				}
				j++
			} else if j < len(src) {
				ch = src[j]
				j++
			}
			if j >= len(src) || src[j] != '\'' {
				return nil, fmt.Errorf("bad char literal in %q", src)
			}
			toks = append(toks, ctok{"char", string([]byte{ch})})
			i = j + 1
			continue
		}
		matched := false
		for _, op := range cops {
			if strings.HasPrefix(src[i:], op) {
				toks = append(toks, ctok{"op", op})
				i += len(op)
				matched = true
				break
			}
		}
		if !matched {
			return nil, fmt.Errorf("unexpected character %q in %q", c, src)
		}
	}
	toks = append(toks, ctok{"eof", ""})
	return toks, nil
}

type cparser struct {
	toks []ctok
	p    int
	src  string
}

func parseCExpr(src string) (e CExpr, err error) {
	toks, err := clex(src)
	if err != nil {
		return nil, err
	}
	ps := &cparser{toks: toks, src: src}
	defer func() {
		if r := recover(); r != nil {
			if s, ok := r.(cperr); ok {
				err = fmt.Errorf("%s in %q", string(s), src)
				return
			}
			panic(r)
		}
	}()
	e = ps.expr(0)
	if ps.peek().kind != "eof" {
		ps.fail("trailing tokens at %q", ps.peek().val)
	}
	return e, nil
}

type cperr string

func (ps *cparser) fail(f string, a ...interface{}) { panic(cperr(fmt.Sprintf(f, a...))) }
func (ps *cparser) peek() ctok                       { return ps.toks[ps.p] }
func (ps *cparser) next() ctok                       { t := ps.toks[ps.p]; ps.p++; return t }
func (ps *cparser) isOp(v string) bool               { t := ps.peek(); return t.kind == "op" && t.val == v }
func (ps *cparser) expectOp(v string) {
	if !ps.isOp(v) {
		ps.fail("expected %q, got %q", v, ps.peek().val)
	}
	ps.p++
}

var cprec = map[string]int{
	"<==>": 1, "==>": 2, "||": 3, "&&": 4,
	"==": 5, "!=": 5, "<": 5, "<=": 5, ">": 5, ">=": 5,
	"+": 6, "-": 6, "|": 6, "^": 6,
	"*": 7, "/": 7, "%": 7, "<<": 7, ">>": 7, "&": 7, "&^": 7,
}

func (ps *cparser) expr(minPrec int) CExpr {
	lhs := ps.unary()
	for {
		t := ps.peek()
		if t.kind != "op" {
			break
		}
		prec, ok := cprec[t.val]
		if !ok || prec < minPrec {
			break
		}
		ps.p++
		var rhs CExpr
		if t.val == "==>" {
			rhs = ps.expr(prec) // right assoc
		} else {
			rhs = ps.expr(prec + 1)
		}
		lhs = CBin{t.val, lhs, rhs}
	}
	return lhs
}

func (ps *cparser) unary() CExpr {
	t := ps.peek()
	if t.kind == "op" && (t.val == "!" || t.val == "-" || t.val == "^" || t.val == "*") {
		ps.p++
		return CUn{t.val, ps.unary()}
	}
	return ps.postfix(ps.primary())
}

func (ps *cparser) typeName() string {
	var sb strings.Builder
	for {
		if ps.isOp("*") {
			ps.p++
			sb.WriteString("*")
			continue
		}
		if ps.isOp("[") {
			ps.p++
			ps.expectOp("]")
			sb.WriteString("[]")
			continue
		}
		break
	}
	t := ps.next()
	if t.kind != "id" {
		ps.fail("expected type name, got %q", t.val)
	}
	sb.WriteString(t.val)
	if ps.isOp(".") {
		ps.p++
		t2 := ps.next()
		sb.WriteString("." + t2.val)
	}
	return sb.String()
}

func (ps *cparser) primary() CExpr {
	t := ps.next()
	switch t.kind {
	case "int":
		return CLit{"int", t.val}
	case "str":
		return CLit{"str", t.val}
	case "char":
		return CLit{"char", t.val}
	case "id":
		switch t.val {
		case "true", "false":
			return CLit{"bool", t.val}
		case "nil":
			return CLit{"nil", ""}
		case "forall", "exists", "lambda":
			var vars []CVar
			for {
				n := ps.next()
				if n.kind != "id" {
					ps.fail("expected bound variable name")
				}
				ty := ps.typeName()
				vars = append(vars, CVar{n.val, ty})
				if ps.isOp(",") {
					ps.p++
					continue
				}
				break
			}
			ps.expectOp("::")
			body := ps.expr(0)
			return CQuant{Forall: t.val == "forall", Vars: vars, Body: body, Array: t.val == "lambda"}
		}
		if ps.isOp("(") {
			ps.p++
			var args []CExpr
			if !ps.isOp(")") {
				for {
					args = append(args, ps.expr(0))
					if ps.isOp(",") {
						ps.p++
						continue
					}
					break
				}
			}
			ps.expectOp(")")
			return CCall{t.val, args}
		}
		return CIdent{t.val}
	case "op":
		if t.val == "(" {
			e := ps.expr(0)
			ps.expectOp(")")
			return e
		}
		if t.val == "#" { // #name : engine-provided special (e.g. #rangeindex)
			n := ps.next()
			return CIdent{"#" + n.val}
		}
	}
	ps.fail("unexpected token %q", t.val)
	return nil
}

func (ps *cparser) postfix(e CExpr) CExpr {
	for {
		if ps.isOp(".") {
			ps.p++
			n := ps.next()
			if n.kind != "id" && n.kind != "int" {
				ps.fail("expected field name")
			}
			// package-qualified call: pkg.fn(...)
			if id, ok := e.(CIdent); ok && ps.isOp("(") {
				ps.p++
				var args []CExpr
				if !ps.isOp(")") {
					for {
						args = append(args, ps.expr(0))
						if ps.isOp(",") {
							ps.p++
							continue
						}
						break
					}
				}
				ps.expectOp(")")
				e = CCall{id.Name + "." + n.val, args}
				continue
			}
			e = CField{e, n.val}
			continue
		}
		if ps.isOp("[") {
			ps.p++
			var lo, hi CExpr
			if !ps.isOp(":") {
				lo = ps.expr(0)
			}
			if ps.isOp(":") {
				ps.p++
				if !ps.isOp("]") {
					hi = ps.expr(0)
				}
				ps.expectOp("]")
				e = CSlice{e, lo, hi}
				continue
			}
			ps.expectOp("]")
			e = CIndex{e, lo}
			continue
		}
		return e
	}
}
