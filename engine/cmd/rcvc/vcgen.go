package main

// Verification-condition generation over go/ssa (NaiveForm).
//
// A function is executed symbolically block by block in reverse post-order with
// back edges removed; every block gets a Boolean path condition and a state
// (local cells + versioned heap arrays); join points merge states with ite.
// Loops are cut at their headers with the declared invariant. Every proof
// obligation is recorded with the length of the script prefix that precedes it,
// so a query is: prelude + prefix + (assert (not (=> pc goal))).

import (
	"os"
	"runtime/debug"
	"fmt"
	"go/constant"
	"go/token"
	"go/types"
	"math/big"
	"sort"
	"strings"

	"golang.org/x/tools/go/ssa"
)

type LKind int

const (
	LCell LKind = iota
	LField
	LElem
	LGlobal
	LSubField
	LSubElem
	LPtr
	LTable
)

// LVal describes an addressable location.
type LVal struct {
	Kind   LKind
	Cell   *ssa.Alloc
	CellFr *Frame
	Key    string // heap key
	Ref    string // object reference / base
	Idx    string // element index (absolute)
	Parent *LVal
	Sl     string // for elements addressed through a slice: the slice term and the relative index
	RelIdx string
	FIdx   int // field index for LSubField
	ST     *types.Struct
	STName string
	T      types.Type // type of the location's content
}

// Sym is the symbolic value of an SSA value: a term, an lvalue, or a tuple.
type Sym struct {
	L     *LVal
	T     Term
	Tuple []Sym
	// range iterator
	Rng *RangeIter
}

type RangeIter struct {
	Instr   *ssa.Range
	X       Term
	IsMap   bool
	IsStr   bool
	VisKey  string // state key for visited set (maps) / position (strings)
	KSort   string
	VSort   string
	KT, VT  types.Type
	Snap    *State
	MapType *types.Map
}

type State struct {
	cells  map[*ssa.Alloc]Term
	heap   map[string]Term
	bases  map[string]baseInfo // per heap key: last wholesale version (entry / havoc) and the allocation frontier at that time
	defers []deferred
}

type baseInfo struct{ base, frontier string }

func newState() *State {
	return &State{cells: map[*ssa.Alloc]Term{}, heap: map[string]Term{}, bases: map[string]baseInfo{}}
}

type deferred struct {
	call *ssa.Defer
	fr   *Frame
}

func (s *State) clone() *State {
	n := &State{cells: make(map[*ssa.Alloc]Term, len(s.cells)), heap: make(map[string]Term, len(s.heap)), bases: make(map[string]baseInfo, len(s.bases))}
	for k, v := range s.cells {
		n.cells[k] = v
	}
	for k, v := range s.bases {
		n.bases[k] = v
	}
	for k, v := range s.heap {
		n.heap[k] = v
	}
	n.defers = append(n.defers, s.defers...)
	return n
}

type Obligation struct {
	Name     string
	Kind     string
	Func     string
	Props    []string
	Prefix   int
	PC       string
	Goal     string
	Pos      string
	Src      string
	Result   string // unsat / sat / unknown / timeout / error
	Solver   string
	Seconds  float64
	Output   string
	Model    string
	Known    bool
	Inputs   []string // terms to evaluate in a model
	FileBase string
}

type Cover struct {
	Name   string
	Prefix int
	PC     string
	Result string
	Where  string
}

type loopFrame struct {
	key     string
	head    string // heap term at the loop head
	targets []modTarget
}

type loopInfo struct {
	frames   []loopFrame
	allocPre string
	preSt    *State
	header  *ssa.BasicBlock
	blocks  map[*ssa.BasicBlock]bool
	ordinal int
	spec    *LoopSpec
	decr0   string
	entrySt *State
}

type Frame struct {
	fn      *ssa.Function
	spec    *FuncSpec
	vals    map[ssa.Value]Sym
	entry   *State
	params  map[string]Term // entry values
	depth   int
	top     bool
	loops   map[*ssa.BasicBlock]*loopInfo
	callOrd map[string]int
	siteOrd map[ssa.Instruction]int // call site -> ordinal among the calls of the same function, in source order
	matched map[*AssertSpec]bool // at-call clauses that found their call
	results []Term
	retPCs  []string
	rets    []retInfo
	labels  map[string]*State
	labelPC map[string]string // path condition under which the label was passed
	allocByName map[string][]*ssa.Alloc
	curBlock *ssa.BasicBlock
	curLoopHdr *ssa.BasicBlock
}

type VC struct {
	eng      *Engine
	fn       *ssa.Function
	spec     *FuncSpec
	script   []string
	nfresh   int
	obs      []*Obligation
	covers   []*Cover
	arrCache map[string]string // array comprehensions already introduced (body text -> constant)
	oldAt    map[string]map[string]bool // term -> frontiers F for which (< (rootof term) F) is an asserted unit fact
	declared map[string]bool
	uses     map[string]bool
	trusted  map[string]bool
	strlits  map[string]Term
	errs     []string
	kindCnt  map[string]int
	entrySt  *State
	inputs   []string
	curPos   token.Pos
	overflow bool
	fldKinds map[string]int
}

type unsupported struct{ msg string }

func (vc *VC) unsup(f string, a ...interface{}) {
	if os.Getenv("VERIF_DEBUG_STACK") != "" {
		debug.PrintStack()
	}
	panic(unsupported{fmt.Sprintf(f, a...)})
}

func (vc *VC) emit(line string) { vc.script = append(vc.script, line) }

func (vc *VC) fresh(prefix, sort string) string {
	vc.nfresh++
	name := q(fmt.Sprintf("%s!%d", prefix, vc.nfresh))
	vc.emit("(declare-const " + name + " " + sort + ")")
	return name
}

func (vc *VC) define(prefix, sort, val string) string {
	if len(val) < 48 {
		return val
	}
	n := vc.fresh(prefix, sort)
	vc.emit("(assert (= " + n + " " + val + "))")
	return n
}

func (vc *VC) assume(pc, fact string) {
	if fact == "true" {
		return
	}
	vc.emit("(assert " + mkImp(pc, fact) + ")")
}

func (vc *VC) posStr(p token.Pos) string {
	if !p.IsValid() {
		p = vc.curPos
	}
	if !p.IsValid() {
		return ""
	}
	pp := vc.eng.fset.Position(p)
	return fmt.Sprintf("%s:%d", pp.Filename, pp.Line)
}

func (vc *VC) oblige(kind, label, pc, goal string, pos token.Pos, src string) {
	if goal == "true" {
		// trivially discharged syntactically; still count it
	}
	var name string
	if label == "" {
		k := vc.kindCnt[kind]
		vc.kindCnt[kind] = k + 1
		name = fmt.Sprintf("%s#%s[%d]", funcName(vc.fn), kind, k)
	} else {
		key := kind + "[" + label + "]"
		k := vc.kindCnt[key]
		vc.kindCnt[key] = k + 1
		if k == 0 {
			name = fmt.Sprintf("%s#%s", funcName(vc.fn), key)
		} else {
			name = fmt.Sprintf("%s#%s~%d", funcName(vc.fn), key, k)
		}
	}
	vc.obs = append(vc.obs, &Obligation{Name: name, Kind: kind, Func: funcName(vc.fn), Props: vc.spec.Props,
		Prefix: len(vc.script), PC: pc, Goal: goal, Pos: vc.posStr(pos), Src: src})
}

func (vc *VC) cover(name, pc string) {
	vc.covers = append(vc.covers, &Cover{Name: funcName(vc.fn) + "#cover." + name, Prefix: len(vc.script), PC: pc})
}

func funcName(fn *ssa.Function) string {
	s := fn.String()
	return s
}

// ---------- sorts ----------

func (vc *VC) sortOf(t types.Type) string {
	switch u := t.Underlying().(type) {
	case *types.Basic:
		if isInt, uns, w := basicInfo(t); isInt {
			if uns {
				return bvSort(w)
			}
			return SInt
		}
		if u.Info()&types.IsBoolean != 0 {
			return SBool
		}
		if u.Info()&types.IsString != 0 {
			return SStr
		}
		if u.Info()&(types.IsFloat|types.IsComplex) != 0 {
			return "Real"
		}
		if u.Kind() == types.UnsafePointer || u.Kind() == types.UntypedNil {
			return SInt
		}
		return SInt
	case *types.Pointer, *types.Map, *types.Chan, *types.Signature, *types.Interface:
		return SInt
	case *types.Slice:
		return SSlice
	case *types.Array:
		return arrSort(SInt, vc.sortOf(u.Elem()))
	case *types.Struct:
		return vc.structSort(t, u)
	case *types.Tuple:
		return SInt
	}
	if strings.Contains(t.String(), "deferStack") {
		return SInt
	}
	vc.unsup("sortOf: unsupported type %s", t)
	return ""
}

func structName(t types.Type) string {
	if a, ok := t.(*types.Alias); ok {
		t = types.Unalias(a)
	}
	if n, ok := t.(*types.Named); ok {
		obj := n.Obj()
		if obj.Pkg() != nil {
			return obj.Pkg().Path() + "." + obj.Name()
		}
		return obj.Name()
	}
	return "anon:" + types.TypeString(t, nil)
}

// structSort declares (on demand) a datatype for a struct used as a value.
func (vc *VC) structSort(t types.Type, st *types.Struct) string {
	name := "V!" + structName(t)
	sn := q(name)
	if vc.declared[sn] {
		return sn
	}
	vc.declared[sn] = true // set early for recursion guard
	var fields []string
	for i := 0; i < st.NumFields(); i++ {
		f := st.Field(i)
		fs := vc.sortOf(f.Type())
		fields = append(fields, fmt.Sprintf("(%s %s)", q(name+"."+f.Name()), fs))
	}
	if len(fields) == 0 {
		vc.emit(fmt.Sprintf("(declare-datatypes ((%s 0)) (((%s))))", sn, q("mk!"+name)))
	} else {
		vc.emit(fmt.Sprintf("(declare-datatypes ((%s 0)) (((%s %s))))", sn, q("mk!"+name), strings.Join(fields, " ")))
	}
	return sn
}

// constArray: a constant array; cvc5 only accepts values under `as const`, so arrays of declared
// constants (string literals) are introduced by a quantified definition instead.
func (vc *VC) constArray(sort, elem string) string {
	if !strings.Contains(elem, "!") {
		return fmt.Sprintf("((as const %s) %s)", sort, elem)
	}
	n := vc.fresh("carr", sort)
	vc.emit(fmt.Sprintf("(assert (forall ((i Int)) (! (= (select %s i) %s) :pattern ((select %s i)))))", n, elem, n))
	return n
}

func (vc *VC) zeroOf(t types.Type) string {
	s := vc.sortOf(t)
	return vc.zeroOfSort(s, t)
}

func (vc *VC) zeroOfSort(s string, t types.Type) string {
	switch {
	case s == SInt:
		return "0"
	case s == SBool:
		return "false"
	case s == "Real":
		return "0.0"
	case s == SStr:
		return vc.strLit("").S
	case s == SSlice:
		return "(mk-slice 0 0 0 0)"
	}
	if n, ok := isBV(s); ok {
		return bvLit(big.NewInt(0), n)
	}
	if strings.HasPrefix(s, "(Array ") {
		if t != nil {
			if a, ok := t.Underlying().(*types.Array); ok {
				return vc.constArray(s, vc.zeroOf(a.Elem()))
			}
		}
		// generic: parse element sort
		return vc.fresh("zero", s)
	}
	if t != nil {
		if st, ok := t.Underlying().(*types.Struct); ok {
			name := "V!" + structName(t)
			var args []string
			for i := 0; i < st.NumFields(); i++ {
				args = append(args, vc.zeroOf(st.Field(i).Type()))
			}
			return app(q("mk!"+name), args...)
		}
	}
	return vc.fresh("zero", s)
}

// ---------- string literals ----------

func (vc *VC) strLit(s string) Term {
	if t, ok := vc.strlits[s]; ok {
		return t
	}
	vc.nfresh++
	name := q(fmt.Sprintf("strlit!%d", vc.nfresh))
	vc.emit("(declare-const " + name + " Str)")
	vc.emit(fmt.Sprintf("(assert (= (s_len %s) %d))", name, len(s)))
	for i := 0; i < len(s); i++ {
		vc.emit(fmt.Sprintf("(assert (= (s_at %s %d) %s))", name, i, bvLit(big.NewInt(int64(s[i])), 8)))
	}
	t := Term{S: name, Sort: SStr, T: types.Typ[types.String]}
	vc.strlits[s] = t
	return t
}

// ---------- heap ----------

func (vc *VC) heapSortOfKey(key string) string {
	if s, ok := vc.eng.keySorts[key]; ok {
		return s
	}
	vc.unsup("unknown heap key %s", key)
	return ""
}

func (vc *VC) regKey(key, sort string) {
	if old, ok := vc.eng.keySorts[key]; ok && old != sort {
		vc.unsup("heap key %s has two sorts: %s vs %s", key, old, sort)
	}
	vc.eng.keySorts[key] = sort
}

func (vc *VC) heapGet(st *State, key string) Term {
	if t, ok := st.heap[key]; ok {
		return t
	}
	sort := vc.heapSortOfKey(key)
	name := q("H0 " + key)
	if !vc.declared[name] {
		vc.declared[name] = true
		vc.emit("(declare-const " + name + " " + sort + ")")
		vc.initHeapFacts(key, name)
	}
	return Term{S: name, Sort: sort}
}

// baseOf returns the last wholesale version of a heap key in st and the allocation frontier it was closed under.
func (vc *VC) baseOf(st *State, key string) baseInfo {
	if b, ok := st.bases[key]; ok {
		return b
	}
	return baseInfo{vc.heapGet(&State{heap: map[string]Term{}}, key).S, q("H0 ALLOC")}
}

// havocKey replaces a heap key by a fresh version closed under the current allocation frontier.
func (vc *VC) havocKey(st *State, key string, prefix string) string {
	s := vc.heapSortOfKey(key)
	n := vc.fresh(prefix, s)
	st.heap[key] = Term{S: n, Sort: s}
	if key != "ALLOC" {
		st.bases[key] = baseInfo{n, vc.heapGet(st, "ALLOC").S}
	}
	return n
}

// closedFact: if the object at ref existed at the base's frontier, the value stored at this location in the
// base version was allocated before that frontier. (Nothing is said about locations inside objects allocated
// later: a callee may have initialised them with references to other new objects.)
func (vc *VC) closedFact(st *State, key string, t types.Type, ref string, at func(base string) string) {
	if t == nil {
		return
	}
	b := vc.baseOf(st, key)
	v := at(b.base)
	guard := fmt.Sprintf("(< (rootof %s) %s)", ref, b.frontier)
	if vc.oldAt[ref][b.frontier] {
		guard = "true" // already asserted for this very frontier: keep the fact a unit clause
		if _, isSlice := t.Underlying().(*types.Slice); isSlice {
			vc.noteOld("(sl.base "+v+")", b.frontier)
		} else {
			vc.noteOld(v, b.frontier)
		}
	}
	switch t.Underlying().(type) {
	case *types.Pointer, *types.Map, *types.Interface, *types.Chan:
		vc.emit(fmt.Sprintf("(assert (=> %s (and (< %s %s) (< (rootof %s) %s))))", guard, v, b.frontier, v, b.frontier))
	case *types.Slice:
		vc.emit(fmt.Sprintf("(assert (=> %s (and (< (sl.base %s) %s) (< (rootof (sl.base %s)) %s))))", guard, v, b.frontier, v, b.frontier))
	}
}

func (vc *VC) heapSet(st *State, key string, val string) {
	sort := vc.heapSortOfKey(key)
	v := vc.define("h", sort, val)
	st.heap[key] = Term{S: v, Sort: sort}
}

func (vc *VC) fieldKey(t types.Type, st *types.Struct, i int) (string, string) {
	f := st.Field(i)
	key := "F:" + structName(t) + "." + f.Name()
	var fs string
	switch f.Type().Underlying().(type) {
	case *types.Struct, *types.Array:
		fs = "" // embedded composite: addressed through fld function
	default:
		fs = vc.sortOf(f.Type())
	}
	if fs != "" {
		vc.regKey(key, arrSort(SInt, fs))
	}
	return key, fs
}

// memKey: element memory is separated by Go element type (no aliasing between differently typed
// slices/arrays without unsafe).
func (vc *VC) memKey(elem types.Type) string {
	es := vc.sortOf(elem)
	key := "M:" + canonType(elem)
	vc.regKey(key, arrSort(SInt, arrSort(SInt, es)))
	return key
}

func canonType(t types.Type) string {
	if b, ok := t.(*types.Basic); ok {
		switch b.Kind() {
		case types.Uint8:
			return "uint8"
		case types.Int32:
			return "int32"
		}
	}
	if a, ok := t.(*types.Alias); ok {
		return canonType(types.Unalias(a))
	}
	return types.TypeString(t, nil)
}

func (vc *VC) ptrKey(elem types.Type) string {
	es := vc.sortOf(elem)
	key := "P:" + es
	vc.regKey(key, arrSort(SInt, es))
	return key
}

func (vc *VC) mapKeys(mt *types.Map) (dk, vk, lk string) {
	ks := vc.sortOf(mt.Key())
	vs := vc.sortOf(mt.Elem())
	tn := "map[" + canonType(mt.Key()) + "]" + canonType(mt.Elem())
	dk = "MD:" + tn
	vk = "MV:" + tn
	lk = "ML:" + tn
	vc.regKey(dk, arrSort(SInt, arrSort(ks, SBool)))
	vc.regKey(vk, arrSort(SInt, arrSort(ks, vs)))
	vc.regKey(lk, arrSort(SInt, SInt))
	return
}

// fld returns the reference of a composite field embedded in object ref.
func (vc *VC) fld(t types.Type, fname string, ref string) string {
	fn := q("fld!" + structName(t) + "." + fname)
	if !vc.declared[fn] {
		vc.declared[fn] = true
		inv := q("fldinv!" + structName(t) + "." + fname)
		vc.emit("(declare-fun " + fn + " (Int) Int)")
		vc.emit("(declare-fun " + inv + " (Int) Int)")
		k := len(vc.fldKinds) + 1
		vc.fldKinds[fn] = k
		vc.emit(fmt.Sprintf("(assert (forall ((r Int)) (! (and (= (%s (%s r)) r) (= (refkind (%s r)) %d) (not (= (%s r) 0)) (= (rootof (%s r)) (rootof r))) :pattern ((%s r)))))", inv, fn, fn, k, fn, fn, fn))
	}
	return app(fn, ref)
}

// elemFn returns the named accessor for slice elements of the given sort (declared on demand).
func (vc *VC) elemFn(es string) string {
	if es == bvSort(8) {
		return "el8"
	}
	fn := q("elem!" + es)
	if es == "Str" {
		return fn // declared in the prelude
	}
	if !vc.declared[fn] {
		vc.declared[fn] = true
		ms := arrSort(SInt, es)
		vc.emit(fmt.Sprintf("(declare-fun %s (%s Slice Int) %s)", fn, ms, es))
		vc.emit(fmt.Sprintf("(assert (forall ((m %s) (s Slice) (k Int)) (! (= (%s m s k) (select m (+ (sl.off s) k))) :pattern ((%s m s k)))))", ms, fn, fn))
	}
	return fn
}

func (vc *VC) allocKey() string {
	vc.regKey("ALLOC", SInt)
	return "ALLOC"
}

// newRef allocates a fresh object reference.
func (vc *VC) newRef(st *State, pc string) string {
	cur := vc.heapGet(st, vc.allocKey())
	r := vc.fresh("ref", SInt)
	vc.emit(fmt.Sprintf("(assert (and (>= %s %s) (> %s 0) (= (refkind %s) 0) (= (rootof %s) %s)))", r, cur.S, r, r, r, r))
	vc.heapSet(st, "ALLOC", "(+ "+r+" 1)")
	return r
}

func (vc *VC) initHeapFacts(key, name string) {
	if key == "ALLOC" {
		vc.emit("(assert (> " + name + " 0))")
	}
	if f, ok := vc.eng.heapInit[key]; ok {
		f(vc, name)
	}
}

// assumeAllocated: any pointer read from the heap or passed in is below the allocation frontier.
// noteOld records that (< (rootof term) frontier) has been asserted unconditionally.
func (vc *VC) noteOld(term, frontier string) {
	if vc.oldAt == nil {
		vc.oldAt = map[string]map[string]bool{}
	}
	if vc.oldAt[term] == nil {
		vc.oldAt[term] = map[string]bool{}
	}
	vc.oldAt[term][frontier] = true
}

func (vc *VC) assumeAllocated(st *State, t types.Type, v string) {
	switch t.Underlying().(type) {
	case *types.Pointer, *types.Map, *types.Interface, *types.Chan:
		cur := vc.heapGet(st, vc.allocKey())
		vc.emit(fmt.Sprintf("(assert (and (< %s %s) (< (rootof %s) %s)))", v, cur.S, v, cur.S))
		vc.noteOld(v, cur.S)
	case *types.Slice:
		cur := vc.heapGet(st, vc.allocKey())
		vc.emit(fmt.Sprintf("(assert (and (< (sl.base %s) %s) (< (rootof (sl.base %s)) %s)))", v, cur.S, v, cur.S))
		vc.noteOld("(sl.base "+v+")", cur.S)
		vc.emit(fmt.Sprintf("(assert (slice_wf %s))", v))
	case *types.Basic:
		if isStringType(t) {
			// s_len >= 0 comes from the prelude axiom
		} else if isInt, uns, w := basicInfo(t); isInt && !uns {
			lo := new(big.Int).Neg(new(big.Int).Lsh(big.NewInt(1), uint(w-1)))
			hi := new(big.Int).Sub(new(big.Int).Lsh(big.NewInt(1), uint(w-1)), big.NewInt(1))
			vc.emit(fmt.Sprintf("(assert (and (<= %s %s) (<= %s %s)))", intLit(lo), v, v, intLit(hi)))
		}
	}
}

// ---------- lvalues ----------

func (vc *VC) load(st *State, l *LVal) Term {
	switch l.Kind {
	case LCell:
		if t, ok := st.cells[l.Cell]; ok {
			return t
		}
		// uninitialised cell: zero value
		z := vc.zeroOf(l.T)
		return Term{S: z, Sort: vc.sortOf(l.T), T: l.T}
	case LField:
		h := vc.heapGet(st, l.Key)
		v := vc.define("ld", vc.sortOf(l.T), sel(h.S, l.Ref))
		vc.assumeAllocated(st, l.T, v)
		vc.closedFact(st, l.Key, l.T, l.Ref, func(b string) string { return sel(b, l.Ref) })
		return Term{S: v, Sort: vc.sortOf(l.T), T: l.T}
	case LElem:
		h := vc.heapGet(st, l.Key)
		raw := sel(sel(h.S, l.Ref), l.Idx)
		if l.Sl != "" {
			raw = app(vc.elemFn(vc.sortOf(l.T)), sel(h.S, "(sl.base "+l.Sl+")"), l.Sl, l.RelIdx)
		}
		v := vc.define("ld", vc.sortOf(l.T), raw)
		vc.assumeAllocated(st, l.T, v)
		vc.closedFact(st, l.Key, l.T, l.Ref, func(b string) string { return sel(sel(b, l.Ref), l.Idx) })
		return Term{S: v, Sort: vc.sortOf(l.T), T: l.T}
	case LGlobal, LPtr:
		if l.Kind == LGlobal {
			h := vc.heapGet(st, l.Key)
			vc.assumeAllocated(st, l.T, h.S)
			return Term{S: h.S, Sort: h.Sort, T: l.T}
		}
		h := vc.heapGet(st, l.Key)
		v := vc.define("ld", vc.sortOf(l.T), sel(h.S, l.Ref))
		vc.assumeAllocated(st, l.T, v)
		vc.closedFact(st, l.Key, l.T, l.Ref, func(b string) string { return sel(b, l.Ref) })
		return Term{S: v, Sort: vc.sortOf(l.T), T: l.T}
	case LTable:
		if l.Idx == "" {
			return Term{S: l.Key, Sort: vc.sortOf(l.T), T: l.T}
		}
		return Term{S: app(l.Key, l.Idx), Sort: vc.sortOf(l.T), T: l.T}
	case LSubField:
		p := vc.load(st, l.Parent)
		acc := q("V!" + l.STName + "." + l.ST.Field(l.FIdx).Name())
		return Term{S: app(acc, p.S), Sort: vc.sortOf(l.T), T: l.T}
	case LSubElem:
		p := vc.load(st, l.Parent)
		return Term{S: sel(p.S, l.Idx), Sort: vc.sortOf(l.T), T: l.T}
	}
	vc.unsup("load: bad lvalue")
	return Term{}
}

func (vc *VC) storeL(st *State, l *LVal, v Term) {
	switch l.Kind {
	case LCell:
		s := vc.define("c", v.Sort, v.S)
		st.cells[l.Cell] = Term{S: s, Sort: v.Sort, T: l.T}
	case LField, LPtr:
		h := vc.heapGet(st, l.Key)
		vc.heapSet(st, l.Key, store(h.S, l.Ref, v.S))
	case LElem:
		h := vc.heapGet(st, l.Key)
		vc.heapSet(st, l.Key, store(h.S, l.Ref, store(sel(h.S, l.Ref), l.Idx, v.S)))
	case LGlobal:
		vc.heapSet(st, l.Key, v.S)
	case LSubField:
		p := vc.load(st, l.Parent)
		name := "V!" + l.STName
		var args []string
		for i := 0; i < l.ST.NumFields(); i++ {
			if i == l.FIdx {
				args = append(args, v.S)
			} else {
				args = append(args, app(q(name+"."+l.ST.Field(i).Name()), p.S))
			}
		}
		vc.storeL(st, l.Parent, Term{S: app(q("mk!"+name), args...), Sort: p.Sort, T: l.Parent.T})
	case LSubElem:
		p := vc.load(st, l.Parent)
		vc.storeL(st, l.Parent, Term{S: store(p.S, l.Idx, v.S), Sort: p.Sort, T: l.Parent.T})
	default:
		vc.unsup("store: bad lvalue")
	}
}

// loadStruct builds a datatype value from a heap-allocated struct at ref.
func (vc *VC) loadStruct(st *State, t types.Type, ref string) Term {
	stt := t.Underlying().(*types.Struct)
	sort := vc.sortOf(t)
	name := "V!" + structName(t)
	var args []string
	for i := 0; i < stt.NumFields(); i++ {
		f := stt.Field(i)
		switch f.Type().Underlying().(type) {
		case *types.Struct:
			args = append(args, vc.loadStruct(st, f.Type(), vc.fld(t, f.Name(), ref)).S)
		case *types.Array:
			a := f.Type().Underlying().(*types.Array)
			mk := vc.memKey(a.Elem())
			args = append(args, sel(vc.heapGet(st, mk).S, vc.fld(t, f.Name(), ref)))
		default:
			key, _ := vc.fieldKey(t, stt, i)
			args = append(args, sel(vc.heapGet(st, key).S, ref))
		}
	}
	return Term{S: app(q("mk!"+name), args...), Sort: sort, T: t}
}

func (vc *VC) storeStruct(st *State, t types.Type, ref string, v string) {
	stt := t.Underlying().(*types.Struct)
	name := "V!" + structName(t)
	vc.sortOf(t)
	for i := 0; i < stt.NumFields(); i++ {
		f := stt.Field(i)
		fv := app(q(name+"."+f.Name()), v)
		switch f.Type().Underlying().(type) {
		case *types.Struct:
			vc.storeStruct(st, f.Type(), vc.fld(t, f.Name(), ref), fv)
		case *types.Array:
			a := f.Type().Underlying().(*types.Array)
			mk := vc.memKey(a.Elem())
			h := vc.heapGet(st, mk)
			vc.heapSet(st, mk, store(h.S, vc.fld(t, f.Name(), ref), fv))
		default:
			key, _ := vc.fieldKey(t, stt, i)
			h := vc.heapGet(st, key)
			vc.heapSet(st, key, store(h.S, ref, fv))
		}
	}
}

// ---------- constants ----------

func (vc *VC) constTerm(c *ssa.Const) Term {
	t := c.Type()
	return vc.constVal(c.Value, t)
}

func (vc *VC) constVal(val constant.Value, t types.Type) Term {
	sort := vc.sortOf(t)
	if val == nil {
		return Term{S: vc.zeroOfSort(sort, t), Sort: sort, T: t}
	}
	switch val.Kind() {
	case constant.Bool:
		if constant.BoolVal(val) {
			return Term{S: "true", Sort: SBool, T: t}
		}
		return Term{S: "false", Sort: SBool, T: t}
	case constant.String:
		s := vc.strLit(constant.StringVal(val))
		s.T = t
		return s
	case constant.Int:
		bi, _ := new(big.Int).SetString(val.ExactString(), 10)
		if n, ok := isBV(sort); ok {
			return Term{S: bvLit(bi, n), Sort: sort, T: t}
		}
		if sort == "Real" {
			return Term{S: intLit(bi) + ".0", Sort: sort, T: t}
		}
		return Term{S: intLit(bi), Sort: SInt, T: t}
	case constant.Float:
		f, _ := constant.Float64Val(val)
		if sort == SInt {
			return Term{S: intLit64(int64(f)), Sort: SInt, T: t}
		}
		return Term{S: fmt.Sprintf("%f", f), Sort: "Real", T: t}
	}
	vc.unsup("constant kind %v", val.Kind())
	return Term{}
}

// ---------- frames ----------

func (vc *VC) newFrame(fn *ssa.Function, spec *FuncSpec, depth int) *Frame {
	fr := &Frame{fn: fn, spec: spec, vals: map[ssa.Value]Sym{}, params: map[string]Term{}, depth: depth,
		loops: map[*ssa.BasicBlock]*loopInfo{}, callOrd: map[string]int{}, allocByName: map[string][]*ssa.Alloc{}}
	for _, b := range fn.Blocks {
		for _, in := range b.Instrs {
			if a, ok := in.(*ssa.Alloc); ok && a.Comment != "" {
				fr.allocByName[a.Comment] = append(fr.allocByName[a.Comment], a)
			}
		}
	}
	return fr
}

func (vc *VC) findLoops(fr *Frame) {
	fn := fr.fn
	var headers []*ssa.BasicBlock
	body := map[*ssa.BasicBlock]map[*ssa.BasicBlock]bool{}
	for _, b := range fn.Blocks {
		for _, s := range b.Succs {
			if s.Dominates(b) { // back edge b -> s
				if body[s] == nil {
					body[s] = map[*ssa.BasicBlock]bool{s: true}
					headers = append(headers, s)
				}
				// natural loop: all nodes that reach b without passing s
				stack := []*ssa.BasicBlock{b}
				for len(stack) > 0 {
					x := stack[len(stack)-1]
					stack = stack[:len(stack)-1]
					if body[s][x] {
						continue
					}
					body[s][x] = true
					for _, p := range x.Preds {
						stack = append(stack, p)
					}
				}
			}
		}
	}
	sort.Slice(headers, func(i, j int) bool { return headers[i].Index < headers[j].Index })
	for i, h := range headers {
		li := &loopInfo{header: h, blocks: body[h], ordinal: i}
		if os.Getenv("VERIF_DEBUG_LOOPS") != "" && fr.top {
			pos := token.NoPos
			for _, in := range h.Instrs {
				if in.Pos() != token.NoPos {
					pos = in.Pos()
					break
				}
			}
			fmt.Fprintf(os.Stderr, "loop %d of %s: header block %d at %s\n", i, fr.fn.Name(), h.Index, vc.eng.prog.Fset.Position(pos))
		}
		if fr.spec != nil {
			li.spec = fr.spec.Loops[i]
		}
		fr.loops[h] = li
	}
}

func rpo(fn *ssa.Function) []*ssa.BasicBlock {
	seen := map[*ssa.BasicBlock]bool{}
	var post []*ssa.BasicBlock
	var dfs func(b *ssa.BasicBlock)
	dfs = func(b *ssa.BasicBlock) {
		seen[b] = true
		for _, s := range b.Succs {
			if !seen[s] {
				dfs(s)
			}
		}
		post = append(post, b)
	}
	dfs(fn.Blocks[0])
	for i, j := 0, len(post)-1; i < j; i, j = i+1, j-1 {
		post[i], post[j] = post[j], post[i]
	}
	return post
}

type edge struct{ from, to *ssa.BasicBlock }

type edgeOut struct {
	cond string
	st   *State
}

// mergeStates merges the incoming (condition,state) pairs.
func (vc *VC) mergeStates(ins []edgeOut) (*State, string) {
	if len(ins) == 0 {
		return newState(), "false"
	}
	if len(ins) == 1 {
		return ins[0].st.clone(), ins[0].cond
	}
	var conds []string
	for _, in := range ins {
		conds = append(conds, in.cond)
	}
	pc := vc.fresh("pc", SBool)
	vc.emit("(assert (= " + pc + " " + mkOr(conds...) + "))")
	out := newState()
	// cells
	cellKeys := map[*ssa.Alloc]bool{}
	for _, in := range ins {
		for k := range in.st.cells {
			cellKeys[k] = true
		}
	}
	for k := range cellKeys {
		var vals []Term
		same := true
		for _, in := range ins {
			v, ok := in.st.cells[k]
			if !ok {
				et := k.Type().(*types.Pointer).Elem()
				v = Term{S: vc.zeroOf(et), Sort: vc.sortOf(et), T: et}
			}
			vals = append(vals, v)
			if v.S != vals[0].S {
				same = false
			}
		}
		if same {
			out.cells[k] = vals[0]
			continue
		}
		s := vals[len(vals)-1].S
		for i := len(vals) - 2; i >= 0; i-- {
			s = mkIte(ins[i].cond, vals[i].S, s)
		}
		n := vc.fresh("m", vals[0].Sort)
		vc.emit("(assert (= " + n + " " + s + "))")
		out.cells[k] = Term{S: n, Sort: vals[0].Sort, T: vals[0].T}
	}
	heapKeys := map[string]bool{}
	for _, in := range ins {
		for k := range in.st.heap {
			heapKeys[k] = true
		}
	}
	var hk []string
	for k := range heapKeys {
		hk = append(hk, k)
	}
	sort.Strings(hk)
	var mixed []string
	for _, k := range hk {
		var vals []Term
		same := true
		for _, in := range ins {
			v := vc.heapGet(in.st, k)
			vals = append(vals, v)
			if v.S != vals[0].S {
				same = false
			}
		}
		sameBase := true
		b0 := vc.baseOf(ins[0].st, k)
		for _, in := range ins[1:] {
			if vc.baseOf(in.st, k) != b0 {
				sameBase = false
			}
		}
		if same {
			out.heap[k] = vals[0]
			if sameBase {
				out.bases[k] = b0
			} else {
				mixed = append(mixed, k)
			}
			continue
		}
		s := vals[len(vals)-1].S
		for i := len(vals) - 2; i >= 0; i-- {
			s = mkIte(ins[i].cond, vals[i].S, s)
		}
		n := vc.fresh("mh", vals[0].Sort)
		vc.emit("(assert (= " + n + " " + s + "))")
		out.heap[k] = Term{S: n, Sort: vals[0].Sort}
		if sameBase {
			out.bases[k] = b0
		} else {
			mixed = append(mixed, k)
		}
	}
	// keys whose predecessors disagree on the base version: the merged term becomes the base at the merged frontier
	for _, k := range mixed {
		if k == "ALLOC" {
			continue
		}
		out.bases[k] = baseInfo{out.heap[k].S, vc.heapGet(out, "ALLOC").S}
	}
	// defers: must agree
	out.defers = append(out.defers, ins[0].st.defers...)
	for _, in := range ins[1:] {
		if len(in.st.defers) != len(out.defers) {
			vc.unsup("defer stacks differ at join")
		}
	}
	return out, pc
}

type retInfo struct {
	pc   string
	vals []Term
	st   *State
	pos  token.Pos
}

// execFunc symbolically executes fn from state st under path condition pc.
func (vc *VC) execFunc(fr *Frame, args []Term, st *State, pc string) ([]Term, *State, string) {
	fn := fr.fn
	if fn.Blocks == nil {
		vc.unsup("function %s has no body", fn)
	}
	vc.findLoops(fr)
	for i, p := range fn.Params {
		fr.vals[p] = Sym{T: args[i]}
		fr.params[p.Name()] = args[i]
	}
	fr.entry = st.clone()
	order := rpo(fn)
	outs := map[edge]edgeOut{}
	var rets []retInfo
	if fr.top {
		for k, li := range fr.loops {
			_ = k
			if li.spec == nil {
				vc.unsup("loop %d of %s has no invariant", li.ordinal, fn)
			}
		}
	} else if len(fr.loops) > 0 {
		vc.unsup("cannot inline %s: it has loops (give it a contract)", fn)
	}
	for _, b := range order {
		var cur *State
		var bpc string
		if b == fn.Blocks[0] {
			cur, bpc = st, pc
		} else {
			var ins []edgeOut
			var backs []edgeOut
			li := fr.loops[b]
			for _, p := range b.Preds {
				eo, ok := outs[edge{p, b}]
				if !ok {
					continue // pred unreachable or back edge not yet processed
				}
				if li != nil && li.blocks[p] {
					backs = append(backs, eo)
					continue
				}
				ins = append(ins, eo)
			}
			cur, bpc = vc.mergeStates(ins)
			if li != nil {
				cur, bpc = vc.cutLoop(fr, li, cur, bpc, ins)
			}
		}
		fr.curBlock = b
		// phis
		for _, in := range b.Instrs {
			phi, ok := in.(*ssa.Phi)
			if !ok {
				break
			}
			li := fr.loops[b]
			if li != nil {
				// loop header phi: havocked in cutLoop
				continue
			}
			var vals []string
			var conds []string
			for i, p := range b.Preds {
				eo, ok := outs[edge{p, b}]
				if !ok {
					continue
				}
				v := vc.value(fr, cur, phi.Edges[i])
				vals = append(vals, v.S)
				conds = append(conds, eo.cond)
			}
			sort := vc.sortOf(phi.Type())
			if len(vals) == 0 {
				fr.vals[phi] = Sym{T: Term{S: vc.zeroOf(phi.Type()), Sort: sort, T: phi.Type()}}
				continue
			}
			s := vals[len(vals)-1]
			for i := len(vals) - 2; i >= 0; i-- {
				s = mkIte(conds[i], vals[i], s)
			}
			fr.vals[phi] = Sym{T: Term{S: vc.define("phi", sort, s), Sort: sort, T: phi.Type()}}
		}
		// instructions
		for _, in := range b.Instrs {
			if _, ok := in.(*ssa.Phi); ok {
				continue
			}
			if in.Pos().IsValid() {
				vc.curPos = in.Pos()
			}
			switch t := in.(type) {
			case *ssa.If:
				c := vc.value(fr, cur, t.Cond)
				cs := vc.define("br", SBool, c.S)
				outs[edge{b, b.Succs[0]}] = edgeOut{mkAnd(bpc, cs), cur}
				outs[edge{b, b.Succs[1]}] = edgeOut{mkAnd(bpc, mkNot(cs)), cur.clone()}
			case *ssa.Jump:
				outs[edge{b, b.Succs[0]}] = edgeOut{bpc, cur}
			case *ssa.Return:
				var vals []Term
				for _, r := range t.Results {
					vals = append(vals, vc.value(fr, cur, r))
				}
				rets = append(rets, retInfo{bpc, vals, cur, t.Pos()})
			case *ssa.Panic:
				vc.oblige("nopanic.explicit", "", bpc, "false", t.Pos(), "explicit panic must be unreachable")
			default:
				vc.execInstr(fr, cur, bpc, in)
			}
		}
		// check back edges out of b
		for _, s := range b.Succs {
			if li := fr.loops[s]; li != nil && li.blocks[b] {
				eo := outs[edge{b, s}]
				vc.checkBackEdge(fr, li, eo, b)
				delete(outs, edge{b, s})
			}
		}
	}
	// merge returns
	if len(rets) == 0 {
		return nil, st, "false"
	}
	var ins []edgeOut
	for _, r := range rets {
		ins = append(ins, edgeOut{r.pc, r.st})
	}
	out, opc := vc.mergeStates(ins)
	var res []Term
	for i := range rets[0].vals {
		s := rets[len(rets)-1].vals[i].S
		for j := len(rets) - 2; j >= 0; j-- {
			s = mkIte(rets[j].pc, rets[j].vals[i].S, s)
		}
		srt := rets[0].vals[i].Sort
		res = append(res, Term{S: vc.define("ret", srt, s), Sort: srt, T: rets[0].vals[i].T})
	}
	for _, r := range rets {
		fr.retPCs = append(fr.retPCs, r.pc)
	}
	fr.rets = rets
	return res, out, opc
}

// ---------- loops ----------

type modSet struct {
	cells map[*ssa.Alloc]bool
	heap  map[string]bool
	// nonfresh[k]: key k may be written at an object that existed before the function (or loop) started;
	// keys in heap but not in nonfresh are written only at objects the function allocates itself.
	nonfresh map[string]bool
	freshOK  map[string]bool // scratch: keys a call merged from a callee whose writes to them are fresh-only
	all      bool
}

func (vc *VC) loopModSet(fr *Frame, li *loopInfo) *modSet {
	ms := &modSet{cells: map[*ssa.Alloc]bool{}, heap: map[string]bool{}}
	for b := range li.blocks {
		for _, in := range b.Instrs {
			vc.instrEffects(fr.fn, in, ms, 0)
		}
	}
	return ms
}

func (vc *VC) cutLoop(fr *Frame, li *loopInfo, entrySt *State, entryPC string, ins []edgeOut) (*State, string) {
	h := li.header
	if li.spec == nil {
		vc.unsup("loop %d of %s has no invariant", li.ordinal, fr.fn)
	}
	// phi values on entry
	phiEntry := map[*ssa.Phi]Term{}
	for _, in := range h.Instrs {
		phi, ok := in.(*ssa.Phi)
		if !ok {
			break
		}
		var vals, conds []string
		for i, p := range h.Preds {
			if li.blocks[p] {
				continue
			}
			v := vc.value(fr, entrySt, phi.Edges[i])
			vals = append(vals, v.S)
			_ = i
			conds = append(conds, "true")
		}
		sort := vc.sortOf(phi.Type())
		if len(vals) != 1 {
			// several entry edges: all entry values must agree syntactically
			for _, v := range vals[1:] {
				if v != vals[0] {
					vc.unsup("loop header phi with several distinct entry values")
				}
			}
		}
		phiEntry[phi] = Term{S: vals[0], Sort: sort, T: phi.Type()}
	}
	// 1. invariants hold on entry
	for phi, v := range phiEntry {
		fr.vals[phi] = Sym{T: v}
	}
	fr.curLoopHdr = h
	li.preSt = entrySt.clone()
	li.allocPre = vc.heapGet(entrySt, "ALLOC").S
	env := vc.envAt(fr, entrySt)
	var provedEntry []string
	for i, inv := range li.spec.Invs {
		g := vc.evalBool(env, inv.Expr)
		lab := inv.Label
		if lab == "" {
			lab = fmt.Sprint(i)
		}
		vc.oblige(fmt.Sprintf("loop%d.entry", li.ordinal), lab, entryPC, mkImp(mkAnd(provedEntry...), g), h.Instrs[0].Pos(), inv.Src)
		provedEntry = append(provedEntry, vc.define("inv", SBool, g))
	}
	// 2. havoc
	ms := vc.loopModSet(fr, li)
	st := entrySt.clone()
	if ms.all {
		vc.unsup("loop %d of %s modifies unknown state", li.ordinal, fr.fn)
	}
	var cells []*ssa.Alloc
	for c := range ms.cells {
		cells = append(cells, c)
	}
	sort.Slice(cells, func(i, j int) bool { return cells[i].Pos() < cells[j].Pos() })
	// the allocation frontier is havoced first: values of the havoced cells may have been allocated in the loop
	if ms.heap["ALLOC"] {
		old := vc.heapGet(entrySt, "ALLOC")
		n := vc.fresh("lh", SInt)
		vc.emit("(assert (>= " + n + " " + old.S + "))")
		st.heap["ALLOC"] = Term{S: n, Sort: SInt}
	}
	for _, c := range cells {
		et := c.Type().(*types.Pointer).Elem()
		s := vc.sortOf(et)
		n := vc.fresh("lc_"+c.Comment, s)
		st.cells[c] = Term{S: n, Sort: s, T: et}
		vc.assumeAllocated(st, et, n)
	}
	var hk []string
	for k := range ms.heap {
		hk = append(hk, k)
	}
	sort.Strings(hk)
	var later []string
	for _, k := range hk {
		if _, ok := vc.eng.keySorts[k]; !ok {
			continue
		}
		if k == "ALLOC" {
			continue // done above
		}
		later = append(later, k)
	}
	li.frames = nil
	if li.spec.HasModifies {
		// declared loop frame: a heap key changes only at the listed locations and at objects allocated inside the loop
		tenv := vc.envAt(fr, entrySt)
		byKey := map[string][]modTarget{}
		for _, t := range vc.modTargetsOf(tenv, li.spec.Modifies) {
			byKey[t.key] = append(byKey[t.key], t)
		}
		li.allocPre = vc.heapGet(entrySt, "ALLOC").S
		for _, k := range later {
			ts := byKey[k]
			whole := false
			for _, t := range ts {
				if t.whole {
					whole = true
				}
			}
			if whole || strings.HasPrefix(k, "RV:") {
				vc.havocKey(st, k, "lh")
				continue
			}
			pre := vc.heapGet(entrySt, k).S
			hh := vc.havocKey(st, k, "lh")
			st.bases[k] = vc.baseOf(entrySt, k) // unlisted old locations keep their pre-loop value
			vc.emit(vc.frameFact(k, hh, pre, li.allocPre, ts))
			li.frames = append(li.frames, loopFrame{k, hh, ts})
		}
	} else {
		for _, k := range later {
			vc.havocKey(st, k, "lh")
		}
	}
	for phi := range phiEntry {
		s := vc.sortOf(phi.Type())
		n := vc.fresh("lphi_"+phi.Comment, s)
		fr.vals[phi] = Sym{T: Term{S: n, Sort: s, T: phi.Type()}}
	}
	pc := vc.fresh("inloop", SBool)
	vc.emit("(assert (=> " + pc + " " + entryPC + "))") // the loop is only entered when its entry is reachable
	env2 := vc.envAt(fr, st)
	for _, inv := range li.spec.Invs {
		g := vc.evalBool(env2, inv.Expr)
		vc.assume(pc, g)
	}
	if li.spec.Decr != nil {
		d := vc.evalTerm(env2, li.spec.Decr.Expr)
		li.decr0 = vc.define("decr", SInt, d.S)
	}
	li.entrySt = st.clone()
	vc.cover(fmt.Sprintf("loop%d", li.ordinal), pc)
	return st, pc
}

func (vc *VC) checkBackEdge(fr *Frame, li *loopInfo, eo edgeOut, from *ssa.BasicBlock) {
	h := li.header
	saved := map[*ssa.Phi]Sym{}
	for _, in := range h.Instrs {
		phi, ok := in.(*ssa.Phi)
		if !ok {
			break
		}
		saved[phi] = fr.vals[phi]
	}
	// phi values along the back edge
	newv := map[*ssa.Phi]Term{}
	for phi := range saved {
		for i, p := range h.Preds {
			if p == from {
				newv[phi] = vc.value(fr, eo.st, phi.Edges[i])
			}
		}
	}
	for phi, v := range newv {
		fr.vals[phi] = Sym{T: v}
	}
	fr.curLoopHdr = h
	env := vc.envAt(fr, eo.st)
	var proved []string
	for i, inv := range li.spec.Invs {
		g := vc.evalBool(env, inv.Expr)
		lab := inv.Label
		if lab == "" {
			lab = fmt.Sprint(i)
		}
		vc.oblige(fmt.Sprintf("loop%d.preserve", li.ordinal), lab, eo.cond, mkImp(mkAnd(proved...), g), from.Instrs[len(from.Instrs)-1].Pos(), inv.Src)
		proved = append(proved, vc.define("inv", SBool, g))
	}
	for i, be := range li.spec.BackEdge {
		g := vc.evalBool(env, be.Expr)
		lab := be.Label
		if lab == "" {
			lab = fmt.Sprint(i)
		}
		vc.oblige(fmt.Sprintf("loop%d.backedge", li.ordinal), lab, eo.cond, g, from.Instrs[len(from.Instrs)-1].Pos(), be.Src)
	}
	for _, lf := range li.frames {
		cur := vc.heapGet(eo.st, lf.key).S
		if cur == lf.head {
			continue
		}
		label := strings.NewReplacer(" ", "", "(", "", ")", "").Replace(lf.key)
		vc.oblige(fmt.Sprintf("loop%d.frame", li.ordinal), label, eo.cond, vc.frameGoal(lf.key, cur, lf.head, li.allocPre, lf.targets), from.Instrs[len(from.Instrs)-1].Pos(), "loop modifies only what it declares: "+lf.key)
	}
	if li.spec.Decr != nil {
		d := vc.evalTerm(env, li.spec.Decr.Expr)
		g := fmt.Sprintf("(and (<= 0 %s) (< %s %s))", li.decr0, d.S, li.decr0)
		vc.oblige(fmt.Sprintf("loop%d.decreases", li.ordinal), "", eo.cond, g, from.Instrs[len(from.Instrs)-1].Pos(), li.spec.Decr.Src)
	}
	for phi, v := range saved {
		fr.vals[phi] = v
	}
}

// ---------- values ----------

func (vc *VC) value(fr *Frame, st *State, v ssa.Value) Term {
	s := vc.sym(fr, st, v)
	if s.L != nil {
		// address used as a value
		return vc.addrAsValue(fr, st, s.L)
	}
	if s.Tuple != nil || s.Rng != nil {
		vc.unsup("tuple used as value: %s", v)
	}
	return s.T
}

func (vc *VC) addrAsValue(fr *Frame, st *State, l *LVal) Term {
	// pointers to scalar locations escaping as values are modelled as opaque non-nil refs
	vc.eng.noteAssumption("address of scalar location used as a value: treated as an opaque non-nil pointer")
	n := vc.fresh("addr", SInt)
	vc.emit("(assert (not (= " + n + " 0)))")
	return Term{S: n, Sort: SInt}
}

func (vc *VC) sym(fr *Frame, st *State, v ssa.Value) Sym {
	if s, ok := fr.vals[v]; ok {
		return s
	}
	switch t := v.(type) {
	case *ssa.Const:
		return Sym{T: vc.constTerm(t)}
	case *ssa.Global:
		return vc.globalSym(st, t)
	case *ssa.Function:
		return Sym{T: Term{S: vc.funcRef(t), Sort: SInt, T: t.Type()}}
	case *ssa.Builtin:
		return Sym{T: Term{S: "0", Sort: SInt}}
	case *ssa.FreeVar:
		vc.unsup("free variable %s (closure bodies are not verified)", t.Name())
	}
	vc.unsup("value %s (%T) used before definition in %s", v.Name(), v, fr.fn)
	return Sym{}
}

func (vc *VC) funcRef(f *ssa.Function) string {
	name := q("fn!" + f.String())
	if !vc.declared[name] {
		vc.declared[name] = true
		vc.emit("(declare-const " + name + " Int)")
		vc.emit("(assert (not (= " + name + " 0)))")
	}
	return name
}

func (vc *VC) globalRef(g *ssa.Global) string {
	name := q("g!" + g.Pkg.Pkg.Path() + "." + g.Name())
	if !vc.declared[name] {
		vc.declared[name] = true
		vc.emit("(declare-const " + name + " Int)")
		vc.eng.nglob++
		vc.emit(fmt.Sprintf("(assert (and (> %s 0) (< %s %s) (= (rootof %s) %s) (= (refkind %s) (- %d))))", name, name, q("H0 ALLOC"), name, name, name, vc.eng.globalIndex(g)))
		if f, ok := vc.eng.globalInit[g.Pkg.Pkg.Path()+"."+g.Name()]; ok {
			f(vc, name)
		}
	}
	return name
}

func (vc *VC) globalSym(st *State, g *ssa.Global) Sym {
	et := g.Type().(*types.Pointer).Elem()
	switch et.Underlying().(type) {
	case *types.Struct, *types.Array:
		r := vc.globalRef(g)
		// below allocation frontier
		return Sym{T: Term{S: r, Sort: SInt, T: g.Type()}}
	}
	if gc := vc.eng.globalConstInfo(g); gc.immutable {
		// assigned only by the package initialiser: a constant
		name := q("gc!" + g.Pkg.Pkg.Path() + "." + g.Name())
		sort := vc.sortOf(et)
		if !vc.declared[name] {
			vc.declared[name] = true
			vc.emit("(declare-const " + name + " " + sort + ")")
			switch gc.kind {
			case "const":
				cv := vc.constVal(gc.val.Value, et)
				vc.emit("(assert (= " + name + " " + cv.S + "))")
			case "sentinel":
				vc.emit(fmt.Sprintf("(assert (and (> %s 0) (< %s %s) (= (rootof %s) %s) (= (refkind %s) (- %d)) (= (dyntype %s) %d)))", name, name, q("H0 ALLOC"), name, name, name, 100000+vc.eng.globalIndex(g), name, vc.eng.typeTag(types.NewPointer(types.Typ[types.Invalid]))))
			default:
				switch et.Underlying().(type) {
				case *types.Pointer, *types.Map, *types.Interface, *types.Chan:
					vc.emit(fmt.Sprintf("(assert (and (< %s %s) (< (rootof %s) %s)))", name, q("H0 ALLOC"), name, q("H0 ALLOC")))
				case *types.Slice:
					vc.emit(fmt.Sprintf("(assert (and (slice_wf %s) (< (sl.base %s) %s) (< (rootof (sl.base %s)) %s)))", name, name, q("H0 ALLOC"), name, q("H0 ALLOC")))
				}
			}
			vc.trusted["package variable "+g.String()+" is assigned only by its initialiser (whole-program scan): treated as a constant"] = true
		}
		if gc.kind == "bytes" {
			// a []byte literal that is only ever read: its length and bytes hold in every memory version
			mem := vc.heapGet(st, vc.memKey(types.Typ[types.Uint8]))
			facts := []string{fmt.Sprintf("(= (sl.len %s) %d)", name, len(gc.bytes)), fmt.Sprintf("(not (= (sl.base %s) 0))", name)}
			for k, b := range gc.bytes {
				facts = append(facts, fmt.Sprintf("(= (select (select %s (sl.base %s)) (+ (sl.off %s) %d)) #x%02x)", mem.S, name, name, k, b))
			}
			vc.emit("(assert " + mkAnd(facts...) + ")")
			vc.trusted["package variable "+g.String()+" is a []byte literal whose elements are only read (whole-program scan)"] = true
		}
		l := &LVal{Kind: LTable, Key: name, Idx: "", T: et}
		return Sym{L: l}
	}
	key := "G:" + g.Pkg.Pkg.Path() + "." + g.Name()
	vc.regKey(key, vc.sortOf(et))
	return Sym{L: &LVal{Kind: LGlobal, Key: key, T: et}}
}

// frameHyp: the location (r[,j]) existed before frontier and is not one of the targets.
func frameHyp(key, r, j, frontier string, ts []modTarget) string {
	hyp := []string{"(< (rootof " + r + ") " + frontier + ")"}
	for _, t := range ts {
		if strings.HasPrefix(key, "M:") && t.lo != "" {
			hyp = append(hyp, fmt.Sprintf("(not (and (= %s %s) (<= %s %s) (< %s %s)))", r, t.ref, t.lo, j, j, t.hi))
		} else {
			hyp = append(hyp, "(not (= "+r+" "+t.ref+"))")
		}
	}
	return mkAnd(hyp...)
}

// frameFact: quantified assumption that heap version `now` agrees with `before` outside the targets.
func (vc *VC) frameFact(key, now, before, frontier string, ts []modTarget) string {
	if strings.HasPrefix(key, "G:") || key == "ALLOC" {
		return "(assert (= " + now + " " + before + "))"
	}
	if strings.HasPrefix(key, "M:") {
		return fmt.Sprintf("(assert (forall ((r Int) (j Int)) (! (=> %s (= (select (select %s r) j) (select (select %s r) j))) :pattern ((select (select %s r) j)))))",
			frameHyp(key, "r", "j", frontier, ts), now, before, now)
	}
	return fmt.Sprintf("(assert (forall ((r Int)) (! (=> %s (= (select %s r) (select %s r))) :pattern ((select %s r)))))",
		frameHyp(key, "r", "", frontier, ts), now, before, now)
}

// frameGoal: the same statement for skolem locations, as a proof obligation.
func (vc *VC) frameGoal(key, now, before, frontier string, ts []modTarget) string {
	if strings.HasPrefix(key, "G:") {
		return mkEq(now, before)
	}
	r := vc.fresh("fr_r", SInt)
	if strings.HasPrefix(key, "M:") {
		j := vc.fresh("fr_j", SInt)
		return mkImp(frameHyp(key, r, j, frontier, ts), mkEq(sel(sel(now, r), j), sel(sel(before, r), j)))
	}
	return mkImp(frameHyp(key, r, "", frontier, ts), mkEq(sel(now, r), sel(before, r)))
}
