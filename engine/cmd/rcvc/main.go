package main

import (
	"encoding/json"
	"flag"
	"fmt"
	"os"
	"os/exec"
	"path/filepath"
	"regexp"
	"runtime"
	"sort"
	"strconv"
	"strings"
	"time"

	"golang.org/x/tools/go/ssa"
)

type ReplayCfg struct {
	Prefix string `json:"prefix"`
	Dir    string `json:"dir"`  // package dir relative to repo, e.g. core/pkg/hashkit
	Src    string `json:"src"`  // test source relative to /verif
	Test   string `json:"test"` // replay test name
	Search string `json:"search"`
}

type StandinCfg struct {
	Name  string `json:"name"`
	Dir   string `json:"dir"`
	Src   string `json:"src"`
	Test  string `json:"test"`
	Bound string `json:"bound"`
	Tier  string `json:"tier"` // "", "thorough"
}

type PropCfg struct {
	Lemmas   []string     `json:"lemmas"`
	Replay   []ReplayCfg  `json:"replay"`
	Standins []StandinCfg `json:"standins"`
	Level    string       `json:"level"`
	Notes    []string     `json:"assumptions"`
	Tables   []string     `json:"tables"`
}

type KnownFinding struct {
	Property   string `json:"property"`
	Obligation string `json:"obligation"`
	Status     string `json:"status"`
	What       string `json:"what"`
	Commit     string `json:"commit,omitempty"`
}

func main() {
	if len(os.Args) < 2 {
		fmt.Fprintln(os.Stderr, "usage: rcvc check|verify|replay|selftest ...")
		os.Exit(2)
	}
	switch os.Args[1] {
	case "check":
		os.Exit(cmdCheck(os.Args[2:]))
	case "verify":
		os.Exit(cmdVerify(os.Args[2:]))
	case "replay":
		os.Exit(cmdReplay(os.Args[2:]))
	default:
		fmt.Fprintln(os.Stderr, "unknown command", os.Args[1])
		os.Exit(2)
	}
}

func envOr(k, d string) string {
	if v := os.Getenv(k); v != "" {
		return v
	}
	return d
}

func setGoEnv() {
	os.Setenv("GOFLAGS", "-mod=mod")
	os.Setenv("GOPROXY", "off")
	os.Setenv("GOSUMDB", "off")
	os.Setenv("GOTOOLCHAIN", "local")
}

// cmdVerify: debugging aid — verify the functions whose name matches and print every obligation.
func cmdVerify(args []string) int {
	fs := flag.NewFlagSet("verify", flag.ExitOnError)
	repo := fs.String("repo", "/repo", "")
	verif := fs.String("verif", "/verif", "")
	match := fs.String("func", "", "substring of function name")
	timeout := fs.Int("timeout", 20, "")
	keep := fs.Bool("keep", false, "keep all smt files")
	fs.Parse(args)
	setGoEnv()
	e, err := loadEngine(*repo, *verif)
	if err != nil {
		fmt.Fprintln(os.Stderr, "load:", err)
		return 2
	}
	var qs []*query
	for _, ps := range e.specs {
		for _, fsx := range ps.Funcs {
			if fsx.Trusted && !fsx.ImplCheck {
				continue
			}
			fn := e.findFunc(ps, fsx)
			if fn == nil {
				fmt.Printf("contract for unknown function %s.%s\n", ps.PkgPath, fsx.Name)
				continue
			}
			if !strings.Contains(fn.String(), *match) {
				continue
			}
			vc, err := e.verifyFunc(fn, fsx)
			if err != nil {
				fmt.Println("ERROR", err)
				continue
			}
			qs = append(qs, e.queriesFor(vc, nil)...)
		}
	}
	dir := filepath.Join(*verif, "work", "verify")
	os.RemoveAll(dir)
	solveAll(qs, dir, *timeout, runtime.NumCPU(), false)
	rc := 0
	for _, qq := range qs {
		ok := qq.result.status == qq.expect || (qq.expect == "sat" && (qq.result.status == "unknown" || qq.result.status == "timeout"))
		mark := "ok  "
		if !ok {
			mark = "FAIL"
			rc = 1
		}
		fmt.Printf("%s %-8s %-7s %6.2fs %s", mark, qq.result.status, qq.result.solver, qq.result.seconds, qq.name)
		if qq.ob != nil {
			fmt.Printf("   [%s] %s", qq.ob.Pos, qq.ob.Src)
		}
		if qq.cv != nil && qq.cv.Where != "" {
			fmt.Printf("   [%s]", qq.cv.Where)
		}
		fmt.Println()
		if !ok && qq.ob != nil {
			fmt.Println("     ", strings.ReplaceAll(strings.TrimSpace(qq.result.output), "\n", "\n      "))
		}
		if qq.disagree != "" {
			fmt.Println("      SOLVER DISAGREEMENT:", qq.disagree)
		}
	}
	if !*keep && rc == 0 {
		os.RemoveAll(dir)
	}
	return rc
}

func (e *Engine) queriesFor(vc *VC, propFilter func(*Obligation) bool) []*query {
	prelude := e.preludeFor(vc.uses)
	var qs []*query
	for _, ob := range vc.obs {
		if propFilter != nil && !propFilter(ob) {
			continue
		}
		hints := ""
		for _, h := range e.hoistHints(ob.Goal) {
			hints += "\n(assert " + h + ")"
		}
		text := prelude + strings.Join(vc.script[:ob.Prefix], "\n") + hints + "\n(assert (not " + mkImp(ob.PC, ob.Goal) + "))"
		qs = append(qs, &query{name: ob.Name, text: text, expect: "unsat", ob: ob, inputs: vc.inputs})
	}
	if vc.spec.Covers {
		for _, cv := range vc.covers {
			text := prelude + strings.Join(vc.script[:cv.Prefix], "\n") + "\n(assert " + cv.PC + ")"
			qs = append(qs, &query{name: cv.Name, text: text, expect: "sat", cv: cv})
		}
	}
	return qs
}

type evidence struct {
	PropertyID  string                 `json:"property_id"`
	Tier        string                 `json:"tier"`
	Seed        int                    `json:"seed"`
	Level       string                 `json:"level"`
	Coverage    map[string]interface{} `json:"coverage"`
	Assumptions []string               `json:"assumptions"`
	WallS       float64                `json:"wall_s"`
	Violations  int                    `json:"violations"`
}

func cmdCheck(args []string) int {
	fs := flag.NewFlagSet("check", flag.ExitOnError)
	repo := fs.String("repo", "/repo", "")
	verif := fs.String("verif", "/verif", "")
	prop := fs.String("property", "", "")
	tier := fs.String("tier", envOr("VERIF_TIER", "quick"), "")
	noEvidence := fs.Bool("no-evidence", false, "do not write evidence (used by selftest on scratch copies)")
	fs.Parse(args)
	if *prop == "" {
		fmt.Fprintln(os.Stderr, "--property required")
		return 2
	}
	setGoEnv()
	seed, _ := strconv.Atoi(envOr("VERIF_SEED", "1"))
	start := time.Now()
	thorough := *tier == "thorough"
	timeout := 40
	if thorough {
		timeout = 120
	}

	var cfgs map[string]*PropCfg
	if b, err := os.ReadFile(filepath.Join(*verif, "spec", "props.json")); err == nil {
		if err := json.Unmarshal(b, &cfgs); err != nil {
			fmt.Fprintln(os.Stderr, "props.json:", err)
			return 2
		}
	}
	cfg := cfgs[*prop]
	if cfg == nil {
		cfg = &PropCfg{}
	}
	var known []KnownFinding
	if b, err := os.ReadFile(filepath.Join(*verif, "known_findings.json")); err == nil {
		if err := json.Unmarshal(b, &known); err != nil {
			fmt.Fprintln(os.Stderr, "known_findings.json:", err)
			return 2
		}
	}

	e, err := loadEngine(*repo, *verif)
	if err != nil {
		fmt.Fprintln(os.Stderr, "ENGINE-ERROR load:", err)
		// a tree that no longer loads cannot be checked: not a verdict
		return 2
	}

	var qs []*query
	var funcs []string
	var subsetErrs []string
	trustedBase := map[string]bool{}
	type fnItem struct {
		ps *PkgSpec
		fs *FuncSpec
	}
	var items []fnItem
	for _, ps := range e.specs {
		for _, fsx := range ps.Funcs {
			if fsx.Trusted && !fsx.ImplCheck {
				continue
			}
			has := false
			for _, p := range fsx.Props {
				if p == *prop {
					has = true
				}
			}
			if has {
				items = append(items, fnItem{ps, fsx})
			}
		}
	}
	sort.Slice(items, func(i, j int) bool {
		return items[i].ps.PkgPath+items[i].fs.Name < items[j].ps.PkgPath+items[j].fs.Name
	})
	missing := 0
	for _, it := range items {
		fn := e.findFunc(it.ps, it.fs)
		if fn == nil {
			subsetErrs = append(subsetErrs, fmt.Sprintf("contract names a function that no longer exists: %s.%s", it.ps.PkgPath, it.fs.Name))
			missing++
			continue
		}
		funcs = append(funcs, fn.String())
		vc, err := e.verifyFunc(fn, it.fs)
		if err != nil {
			subsetErrs = append(subsetErrs, err.Error())
			continue
		}
		for k := range vc.trusted {
			trustedBase[k] = true
		}
		filter := func(ob *Obligation) bool { return clauseServes(ob, *prop) }
		fq := e.queriesFor(vc, filter)
		nOb := 0
		for _, qq := range fq {
			if qq.ob != nil {
				nOb++
			}
		}
		if nOb == 0 {
			subsetErrs = append(subsetErrs, fmt.Sprintf("zero obligations generated for %s", fn))
		}
		qs = append(qs, fq...)
	}
	// lemmas
	for _, l := range cfg.Lemmas {
		b, err := os.ReadFile(filepath.Join(*verif, "spec", "lemmas", l+".smt2"))
		if err != nil {
			fmt.Fprintln(os.Stderr, "ENGINE-ERROR lemma:", err)
			return 2
		}
		uses := map[string]bool{}
		for _, line := range strings.Split(string(b), "\n") {
			if strings.HasPrefix(line, "; uses ") {
				for _, u := range strings.Fields(line[len("; uses "):]) {
					uses[u] = true
				}
			}
		}
		text := e.preludeFor(uses) + string(b)
		if strings.Contains(string(b), "\n; table ") || strings.Contains(string(b), "\n; maptable ") || strings.Contains(string(b), "\n; docs-yes ") || strings.Contains(string(b), "\n; golden-") || strings.Contains(string(b), "\n; const ") {
			text, err = e.expandTables(text)
			if err != nil {
				fmt.Fprintln(os.Stderr, "ENGINE-ERROR lemma table:", err)
				return 2
			}
		}
		ob := &Obligation{Name: "lemma:" + l, Kind: "lemma", Func: "spec/lemmas/" + l + ".smt2", Src: "spec lemma " + l}
		qs = append(qs, &query{name: "lemma:" + l, text: text, expect: "unsat", ob: ob, lemma: l})
	}

	workDir := filepath.Join(*verif, "work", *prop)
	os.RemoveAll(workDir)
	for _, qq := range qs {
		if qq.ob != nil && matchKnown(known, *prop, qq.name) != nil {
			qq.quick = true
		}
	}
	solveAll(qs, workDir, timeout, runtime.NumCPU(), thorough)

	// ---- verdicts ----
	var obligations, discharged int
	var failing []*query
	var engineErrs []string
	var coverFails []*query
	solverTime := map[string]float64{}
	solverCount := map[string]int{}
	kinds := map[string]int{}
	var samples []interface{}
	coversOK, coversTotal := 0, 0
	for _, qq := range qs {
		if qq.disagree != "" {
			engineErrs = append(engineErrs, "solver disagreement on "+qq.name+": "+qq.disagree)
		}
		if qq.cv != nil {
			coversTotal++
			switch qq.result.status {
			case "sat", "unknown", "timeout":
				coversOK++
			case "unsat":
				// a point the contracts say is reachable (a return not declared unreachable, a loop body, the
				// precondition itself) no longer is: a named obligation like any other
				coverFails = append(coverFails, qq)
			default:
				engineErrs = append(engineErrs, "cover "+qq.name+": solver "+qq.result.status+": "+firstLine(qq.result.output))
			}
			continue
		}
		obligations++
		kinds[qq.ob.Kind]++
		solverTime[qq.result.solver] += qq.result.seconds
		if qq.result.status == "unsat" {
			discharged++
			solverCount[qq.result.solver]++
			if len(samples) < 6 {
				samples = append(samples, map[string]interface{}{"obligation": qq.name, "kind": qq.ob.Kind, "source": qq.ob.Src, "at": qq.ob.Pos,
					"smt_bytes": len(qq.text), "result": "unsat", "solver": qq.result.solver, "seconds": round3(qq.result.seconds)})
			}
			continue
		}
		if qq.result.status == "error" {
			engineErrs = append(engineErrs, "solver error on "+qq.name+": "+firstLine(qq.result.output))
			continue
		}
		failing = append(failing, qq)
	}

	violations := 0
	var knownMatched []string
	var outLines []string
	replayDir := filepath.Join(*verif, "replay", "out", *prop)
	os.RemoveAll(replayDir)
	for _, qq := range failing {
		if kf := matchKnown(known, *prop, qq.name); kf != nil {
			outLines = append(outLines, fmt.Sprintf("KNOWN-FINDING: property=%s %s: %s", *prop, qq.name, kf.What))
			knownMatched = append(knownMatched, qq.name)
			continue
		}
		violations++
		os.MkdirAll(replayDir, 0o755)
		rec := map[string]interface{}{
			"property": *prop, "obligation": qq.name, "kind": qq.ob.Kind, "source_clause": qq.ob.Src, "at": qq.ob.Pos,
			"solver": qq.result.solver, "solver_status": qq.result.status, "solver_output": qq.result.output,
			"smt_file": filepath.Join(workDir, safeFile(qq.name)+".smt2"),
		}
		model := parseModel(qq.result.output)
		if len(model) > 0 {
			rec["model"] = model
		}
		path := filepath.Join(replayDir, safeFile(qq.name)+".json")
		confirmed := false
		if rc := findReplay(cfg, qq.name); rc != nil {
			witness, log := runReplay(*repo, *verif, rc, path, rec, seed)
			rec["replay_log"] = log
			if witness != "" {
				rec["witness"] = witness
				confirmed = true
			}
		}
		b, _ := json.MarshalIndent(rec, "", " ")
		os.WriteFile(path, b, 0o644)
		if confirmed {
			outLines = append(outLines, fmt.Sprintf("VIOLATION property=%s replay=%s", *prop, path))
		} else {
			outLines = append(outLines, fmt.Sprintf("VIOLATION property=%s replay=%s no-failing-input-found", *prop, path))
		}
		fmt.Fprintf(os.Stderr, "failed obligation %s (%s by %s): %s @ %s\n", qq.name, qq.result.status, qq.result.solver, qq.ob.Src, qq.ob.Pos)
	}
	for _, qq := range coverFails {
		violations++
		os.MkdirAll(replayDir, 0o755)
		path := filepath.Join(replayDir, safeFile(qq.name)+".json")
		rec := map[string]interface{}{"property": *prop, "obligation": qq.name, "kind": "reachable", "at": qq.cv.Where,
			"source_clause": "this program point is reachable under the contracts (not vacuous); a return the contracts rule out must be declared `unreachable return K`",
			"solver": qq.result.solver, "solver_status": qq.result.status, "solver_output": qq.result.output}
		b, _ := json.MarshalIndent(rec, "", " ")
		os.WriteFile(path, b, 0o644)
		outLines = append(outLines, fmt.Sprintf("VIOLATION property=%s replay=%s no-failing-input-found", *prop, path))
		fmt.Fprintf(os.Stderr, "failed obligation %s (unreachable under the contracts) @ %s\n", qq.name, qq.cv.Where)
	}
	// constructs outside the subset: the obligations of that function are undischarged
	for i, se := range subsetErrs {
		name := fmt.Sprintf("subset-%d", i)
		if kf := matchKnown(known, *prop, se); kf != nil {
			outLines = append(outLines, fmt.Sprintf("KNOWN-FINDING: property=%s %s", *prop, kf.What))
			continue
		}
		violations++
		os.MkdirAll(replayDir, 0o755)
		path := filepath.Join(replayDir, name+".json")
		rec := map[string]interface{}{"property": *prop, "obligation": "all obligations of the function", "reason": se,
			"solver_output": "not generated: " + se}
		b, _ := json.MarshalIndent(rec, "", " ")
		os.WriteFile(path, b, 0o644)
		outLines = append(outLines, fmt.Sprintf("VIOLATION property=%s replay=%s no-failing-input-found", *prop, path))
		fmt.Fprintln(os.Stderr, "undischarged:", se)
	}

	// stand-ins (bounded; never counted as proved)
	var standinInfo []interface{}
	for _, sd := range cfg.Standins {
		if sd.Tier == "thorough" && !thorough {
			continue
		}
		ok, log, secs := runStandin(*repo, *verif, &sd, seed, thorough)
		info := map[string]interface{}{"name": sd.Name, "bound": sd.Bound, "passed": ok, "seconds": round3(secs), "label": "bounded"}
		standinInfo = append(standinInfo, info)
		if !ok {
			violations++
			os.MkdirAll(replayDir, 0o755)
			path := filepath.Join(replayDir, "standin-"+safeFile(sd.Name)+".json")
			rec := map[string]interface{}{"property": *prop, "standin": sd.Name, "bound": sd.Bound, "log": log, "test": sd.Test, "dir": sd.Dir, "src": sd.Src}
			b, _ := json.MarshalIndent(rec, "", " ")
			os.WriteFile(path, b, 0o644)
			outLines = append(outLines, fmt.Sprintf("VIOLATION property=%s replay=%s", *prop, path))
		}
	}

	if len(items) == 0 && len(cfg.Lemmas) == 0 {
		engineErrs = append(engineErrs, "no functions under contract and no lemmas for "+*prop)
	}
	if obligations == 0 {
		engineErrs = append(engineErrs, "zero obligations generated")
	}

	// ---- evidence ----
	var tb []string
	for k := range trustedBase {
		tb = append(tb, k)
	}
	sort.Strings(tb)
	var assumptions []string
	assumptions = append(assumptions,
		"signed integers are mathematical (no wrap-around) except in functions flagged overflow; unsigned integers are exact bit-vectors",
		"single event-loop goroutine: background goroutines and data races are not modelled",
		"go/ssa (x/tools v0.29.0, NaiveForm) is the semantics of the Go source; the SSA is rebuilt from /repo on every run",
		"handler induction over event-loop callbacks (DESIGN.md section 5) is argued on paper from the discharged per-function obligations")
	for k := range e.assumptions {
		assumptions = append(assumptions, k)
	}
	assumptions = append(assumptions, cfg.Notes...)
	sort.Strings(assumptions[4:])
	level := cfg.Level
	if level == "" {
		level = "proof"
	}
	stimes := map[string]interface{}{}
	for k, v := range solverTime {
		stimes[k] = round3(v)
	}
	cov := map[string]interface{}{
		"obligations":              obligations,
		"discharged":               discharged + len(knownMatched),
		"discharged_by_solver":     discharged,
		"known_findings_matched":   knownMatched,
		"checker_cmd":              fmt.Sprintf("bin/rcvc check --property %s --tier %s", *prop, *tier),
		"trusted_base":             tb,
		"functions_under_contract": funcs,
		"obligations_by_kind":      kinds,
		"discharged_by_backend":    solverCount,
		"solver_seconds":           stimes,
		"covers":                   map[string]int{"total": coversTotal, "satisfiable_or_unknown": coversOK},
		"bounded_standins":         standinInfo,
		"samples":                  samples,
		"undischarged":             len(failing) - len(knownMatched) + len(subsetErrs),
		"lemmas":                   cfg.Lemmas,
	}
	if len(samples) == 0 {
		cov["samples"] = []interface{}{"none discharged"}
	}
	ev := evidence{PropertyID: *prop, Tier: *tier, Seed: seed, Level: level, Coverage: cov, Assumptions: assumptions,
		WallS: round3(time.Since(start).Seconds()), Violations: violations}
	if !*noEvidence {
		os.MkdirAll(filepath.Join(*verif, "evidence"), 0o755)
		b, _ := json.MarshalIndent(ev, "", " ")
		os.WriteFile(filepath.Join(*verif, "evidence", *prop+".json"), append(b, '\n'), 0o644)
	}

	for _, l := range outLines {
		fmt.Println(l)
	}
	fmt.Printf("property %s: %d obligations, %d discharged, %d known findings, %d violations, %d covers, %.1fs\n",
		*prop, obligations, discharged, len(knownMatched), violations, coversTotal, time.Since(start).Seconds())
	if len(engineErrs) > 0 {
		for _, ee := range engineErrs {
			fmt.Fprintln(os.Stderr, "ENGINE-ERROR", ee)
		}
		if violations > 0 {
			return 1
		}
		return 2
	}
	if violations > 0 {
		return 1
	}
	if thorough || os.Getenv("VERIF_KEEP_WORK") == "" {
		os.RemoveAll(workDir)
	}
	return 0
}

var labelProps = regexp.MustCompile(`\[[^\]]*@([A-Z0-9,]+)\]`)

// clauseServes: an obligation whose label carries @C12,C17 serves only those properties.
func clauseServes(ob *Obligation, prop string) bool {
	m := labelProps.FindStringSubmatch(ob.Name)
	if m == nil {
		return true
	}
	for _, p := range strings.Split(m[1], ",") {
		if p == prop {
			return true
		}
	}
	return false
}

func matchKnown(known []KnownFinding, prop, name string) *KnownFinding {
	for i := range known {
		k := &known[i]
		if k.Property == prop && k.Status == "known" && k.Obligation == name {
			return k
		}
	}
	return nil
}

func firstLine(s string) string {
	s = strings.TrimSpace(s)
	if i := strings.Index(s, "\n"); i >= 0 {
		return s[:i]
	}
	return s
}

func round3(f float64) float64 { return float64(int(f*1000+0.5)) / 1000 }

func findReplay(cfg *PropCfg, name string) *ReplayCfg {
	for i := range cfg.Replay {
		if strings.HasPrefix(name, cfg.Replay[i].Prefix) {
			return &cfg.Replay[i]
		}
	}
	return nil
}

var modelPair = regexp.MustCompile(`\(\s*(\([^()]*(?:\([^()]*(?:\([^()]*\)[^()]*)*\)[^()]*)*\)|[^\s()]+)\s+(\(_ bv\d+ \d+\)|#x[0-9a-fA-F]+|#b[01]+|\(- \d+\)|[^\s()]+)\s*\)`)

// parseModel extracts (term value) pairs from a get-value answer.
func parseModel(out string) map[string]string {
	m := map[string]string{}
	i := strings.Index(out, "((")
	if i < 0 {
		return m
	}
	body := out[i+1:]
	for _, mm := range modelPair.FindAllStringSubmatch(body, -1) {
		m[mm[1]] = mm[2]
	}
	return m
}

func goTestOverlay(repo, verif, dir, src, test string, env []string, timeoutSec int) (bool, string, float64) {
	start := time.Now()
	tmp, err := os.MkdirTemp("", "rcvc-ov")
	if err != nil {
		return false, err.Error(), 0
	}
	defer os.RemoveAll(tmp)
	ov := map[string]map[string]string{"Replace": {}}
	for _, s := range strings.Split(src, ",") {
		s = strings.TrimSpace(s)
		ov["Replace"][filepath.Join(repo, dir, "zz_verif_"+filepath.Base(s))] = filepath.Join(verif, s)
	}
	// shared helpers, with the package clause of the package under test
	if cb, err := os.ReadFile(filepath.Join(verif, "replay", "common.go.txt")); err == nil {
		pkgName := packageNameOf(filepath.Join(repo, dir))
		cf := filepath.Join(tmp, "common_test.go")
		os.WriteFile(cf, []byte(strings.Replace(string(cb), "package PKG", "package "+pkgName, 1)), 0o644)
		ov["Replace"][filepath.Join(repo, dir, "zz_verif_common_test.go")] = cf
	}
	b, _ := json.Marshal(ov)
	ovf := filepath.Join(tmp, "ov.json")
	os.WriteFile(ovf, b, 0o644)
	cmd := exec.Command("go", "test", "-overlay", ovf, "-vet=off", "-count=1", "-timeout", fmt.Sprintf("%ds", timeoutSec), "-run", "^"+test+"$", "./"+dir)
	cmd.Dir = repo
	cmd.Env = append(os.Environ(), env...)
	out, err := cmd.CombinedOutput()
	return err == nil, string(out), time.Since(start).Seconds()
}

// runReplay replays a solver model on the real code; if that does not fail, runs the bounded search.
// Returns the witness description (empty if no failing input was found) and the log.
func runReplay(repo, verif string, rc *ReplayCfg, path string, rec map[string]interface{}, seed int) (string, string) {
	b, _ := json.MarshalIndent(rec, "", " ")
	os.WriteFile(path, b, 0o644)
	var log strings.Builder
	env := []string{"VERIF_REPLAY_FILE=" + path, fmt.Sprintf("VERIF_SEED=%d", seed)}
	for _, test := range []string{rc.Test, rc.Search} {
		if test == "" {
			continue
		}
		ok, out, _ := goTestOverlay(repo, verif, rc.Dir, rc.Src, test, env, 120)
		log.WriteString("== " + test + "\n" + out + "\n")
		if !ok {
			for _, line := range strings.Split(out, "\n") {
				if i := strings.Index(line, "VERIF-WITNESS:"); i >= 0 {
					return strings.TrimSpace(line[i+len("VERIF-WITNESS:"):]), log.String()
				}
			}
			if strings.Contains(out, "panic:") || strings.Contains(out, "--- FAIL") {
				return "replay test " + test + " failed (see replay_log)", log.String()
			}
		}
	}
	return "", log.String()
}

var pkgClause = regexp.MustCompile(`(?m)^package\s+(\w+)`)

func packageNameOf(dir string) string {
	files, _ := filepath.Glob(filepath.Join(dir, "*.go"))
	for _, f := range files {
		if strings.HasSuffix(f, "_test.go") {
			continue
		}
		b, err := os.ReadFile(f)
		if err != nil {
			continue
		}
		if m := pkgClause.FindSubmatch(b); m != nil {
			return string(m[1])
		}
	}
	return filepath.Base(dir)
}

func runStandin(repo, verif string, sd *StandinCfg, seed int, thorough bool) (bool, string, float64) {
	tier := "quick"
	if thorough {
		tier = "thorough"
	}
	env := []string{fmt.Sprintf("VERIF_SEED=%d", seed), "VERIF_TIER=" + tier}
	return goTestOverlay(repo, verif, sd.Dir, sd.Src, sd.Test, env, 600)
}

func cmdReplay(args []string) int {
	if len(args) < 1 {
		fmt.Fprintln(os.Stderr, "usage: rcvc replay <file.json>")
		return 2
	}
	setGoEnv()
	b, err := os.ReadFile(args[0])
	if err != nil {
		fmt.Fprintln(os.Stderr, err)
		return 2
	}
	var rec map[string]interface{}
	if err := json.Unmarshal(b, &rec); err != nil {
		fmt.Fprintln(os.Stderr, err)
		return 2
	}
	prop, _ := rec["property"].(string)
	name, _ := rec["obligation"].(string)
	var cfgs map[string]*PropCfg
	if cb, err := os.ReadFile("/verif/spec/props.json"); err == nil {
		json.Unmarshal(cb, &cfgs)
	}
	fmt.Printf("property %s obligation %s\n", prop, name)
	if w, ok := rec["witness"]; ok {
		fmt.Println("recorded witness:", w)
	}
	if sd, ok := rec["standin"].(string); ok {
		src, _ := rec["src"].(string)
		dir, _ := rec["dir"].(string)
		test, _ := rec["test"].(string)
		ok, out, _ := goTestOverlay("/repo", "/verif", dir, src, test, nil, 600)
		fmt.Println(out)
		if ok {
			fmt.Println("stand-in", sd, "passes on the current tree")
			return 0
		}
		return 1
	}
	cfg := cfgs[prop]
	if cfg == nil {
		fmt.Println("no replay harness registered; solver output:")
		fmt.Println(rec["solver_output"])
		return 1
	}
	rc := findReplay(cfg, name)
	if rc == nil {
		fmt.Println("no replay harness registered for this obligation; solver output:")
		fmt.Println(rec["solver_output"])
		return 1
	}
	w, log := runReplay("/repo", "/verif", rc, args[0]+".rerun", rec, 1)
	os.Remove(args[0] + ".rerun")
	fmt.Println(log)
	if w != "" {
		fmt.Println("VIOLATION reproduced:", w)
		return 1
	}
	fmt.Println("no failing input on the current tree")
	return 0
}

// expandTables replaces `; table pkgpath.name` lines by definitions read from the loaded source.
func (e *Engine) expandTables(text string) (string, error) {
	var out []string
	for _, line := range strings.Split(text, "\n") {
		if strings.HasPrefix(line, "; table ") {
			name := strings.TrimSpace(line[len("; table "):])
			def, err := e.tableDef(name)
			if err != nil {
				return "", err
			}
			out = append(out, def)
			continue
		}
		if def, ok, err := e.lemmaDirective(line); ok {
			if err != nil {
				return "", err
			}
			out = append(out, def)
			continue
		}
		out = append(out, line)
	}
	return strings.Join(out, "\n"), nil
}

var _ = ssa.NaiveForm
