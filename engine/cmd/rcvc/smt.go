package main

import (
	"fmt"
	"go/types"
	"math/big"
	"strings"
)

// Term is an SMT-LIB term with its sort and (when known) the Go type it models.
type Term struct {
	S    string
	Sort string
	T    types.Type
}

const (
	SInt   = "Int"
	SBool  = "Bool"
	SStr   = "Str"
	SSlice = "Slice"
)

func bvSort(n int) string { return fmt.Sprintf("(_ BitVec %d)", n) }

func isBV(sort string) (int, bool) {
	var n int
	if _, err := fmt.Sscanf(sort, "(_ BitVec %d)", &n); err == nil {
		return n, true
	}
	return 0, false
}

func arrSort(idx, el string) string { return "(Array " + idx + " " + el + ")" }

func q(name string) string {
	// quote if needed
	simple := true
	for _, c := range name {
		if !(c >= 'a' && c <= 'z' || c >= 'A' && c <= 'Z' || c >= '0' && c <= '9' || c == '_' || c == '!' || c == '.') {
			simple = false
			break
		}
	}
	if simple && len(name) > 0 && !(name[0] >= '0' && name[0] <= '9') {
		return name
	}
	return "|" + strings.NewReplacer("|", "!", "\\", "!").Replace(name) + "|"
}

func intLit(v *big.Int) string {
	if v.Sign() < 0 {
		return "(- " + new(big.Int).Neg(v).String() + ")"
	}
	return v.String()
}

func intLit64(v int64) string { return intLit(big.NewInt(v)) }

func bvLit(v *big.Int, width int) string {
	m := new(big.Int).Lsh(big.NewInt(1), uint(width))
	x := new(big.Int).Mod(v, m)
	return fmt.Sprintf("(_ bv%s %d)", x.String(), width)
}

func tInt(s string) Term  { return Term{S: s, Sort: SInt} }
func tBool(s string) Term { return Term{S: s, Sort: SBool} }

var tTrue = Term{S: "true", Sort: SBool}
var tFalse = Term{S: "false", Sort: SBool}

func mkAnd(ts ...string) string {
	var xs []string
	for _, t := range ts {
		if t == "true" {
			continue
		}
		if t == "false" {
			return "false"
		}
		xs = append(xs, t)
	}
	switch len(xs) {
	case 0:
		return "true"
	case 1:
		return xs[0]
	}
	return "(and " + strings.Join(xs, " ") + ")"
}

func mkOr(ts ...string) string {
	var xs []string
	for _, t := range ts {
		if t == "false" {
			continue
		}
		if t == "true" {
			return "true"
		}
		xs = append(xs, t)
	}
	switch len(xs) {
	case 0:
		return "false"
	case 1:
		return xs[0]
	}
	return "(or " + strings.Join(xs, " ") + ")"
}

func mkNot(t string) string {
	if t == "true" {
		return "false"
	}
	if t == "false" {
		return "true"
	}
	if strings.HasPrefix(t, "(not ") && balanced(t[5:len(t)-1]) {
		return t[5 : len(t)-1]
	}
	return "(not " + t + ")"
}

func balanced(s string) bool {
	d := 0
	inq := false
	for _, c := range s {
		if c == '|' {
			inq = !inq
		}
		if inq {
			continue
		}
		if c == '(' {
			d++
		}
		if c == ')' {
			d--
			if d < 0 {
				return false
			}
		}
	}
	return d == 0
}

func mkImp(a, b string) string {
	if a == "true" {
		return b
	}
	if b == "true" {
		return "true"
	}
	if a == "false" {
		return "true"
	}
	return "(=> " + a + " " + b + ")"
}

func mkIte(c, a, b string) string {
	if c == "true" {
		return a
	}
	if c == "false" {
		return b
	}
	if a == b {
		return a
	}
	return "(ite " + c + " " + a + " " + b + ")"
}

func mkEq(a, b string) string {
	if a == b {
		return "true"
	}
	return "(= " + a + " " + b + ")"
}

func app(f string, args ...string) string {
	if len(args) == 0 {
		return f
	}
	return "(" + f + " " + strings.Join(args, " ") + ")"
}

func sel(a, i string) string      { return "(select " + a + " " + i + ")" }
func store(a, i, v string) string { return "(store " + a + " " + i + " " + v + ")" }

// ---- Go type helpers ----

func basicInfo(t types.Type) (isInt, unsigned bool, width int) {
	b, ok := t.Underlying().(*types.Basic)
	if !ok {
		return false, false, 0
	}
	switch b.Kind() {
	case types.Int, types.Int64, types.UntypedInt, types.UntypedRune:
		return true, false, 64
	case types.Int32:
		return true, false, 32
	case types.Int16:
		return true, false, 16
	case types.Int8:
		return true, false, 8
	case types.Uint, types.Uint64, types.Uintptr:
		return true, true, 64
	case types.Uint32:
		return true, true, 32
	case types.Uint16:
		return true, true, 16
	case types.Uint8:
		return true, true, 8
	}
	return false, false, 0
}

func isStringType(t types.Type) bool {
	b, ok := t.Underlying().(*types.Basic)
	return ok && b.Info()&types.IsString != 0
}

func isBoolType(t types.Type) bool {
	b, ok := t.Underlying().(*types.Basic)
	return ok && b.Info()&types.IsBoolean != 0
}

func isFloatType(t types.Type) bool {
	b, ok := t.Underlying().(*types.Basic)
	return ok && b.Info()&(types.IsFloat|types.IsComplex) != 0
}

func typeKey(t types.Type) string {
	return types.TypeString(t, nil)
}

func namedOf(t types.Type) *types.Named {
	if p, ok := t.(*types.Pointer); ok {
		t = p.Elem()
	}
	if a, ok := t.(*types.Alias); ok {
		t = types.Unalias(a)
	}
	n, _ := t.(*types.Named)
	return n
}
