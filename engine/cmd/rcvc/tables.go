package main

// Immutable global tables read from the loaded source (never hand-copied).

import (
	"encoding/json"
	"fmt"
	"os"
	"path/filepath"
	"sort"
	"go/ast"
	"go/constant"
	"go/token"
	"go/types"
	"math/big"
	"strings"

	"golang.org/x/tools/go/ssa"
)

// arrayLiteral returns the element values of a package-level array/slice variable
// initialised by a composite literal of integer constants.
func (e *Engine) arrayLiteral(pkgPath, name string) ([]*big.Int, types.Type, error) {
	p, ok := e.lpkgs[pkgPath]
	if !ok {
		return nil, nil, fmt.Errorf("package %s not loaded", pkgPath)
	}
	for _, f := range p.Syntax {
		for _, d := range f.Decls {
			gd, ok := d.(*ast.GenDecl)
			if !ok || gd.Tok != token.VAR {
				continue
			}
			for _, sp := range gd.Specs {
				vs := sp.(*ast.ValueSpec)
				for i, n := range vs.Names {
					if n.Name != name || i >= len(vs.Values) {
						continue
					}
					cl, ok := vs.Values[i].(*ast.CompositeLit)
					if !ok {
						return nil, nil, fmt.Errorf("%s.%s is not initialised by a composite literal", pkgPath, name)
					}
					var out []*big.Int
					for _, el := range cl.Elts {
						if _, isKV := el.(*ast.KeyValueExpr); isKV {
							return nil, nil, fmt.Errorf("%s.%s: keyed elements not supported", pkgPath, name)
						}
						tv, ok := p.TypesInfo.Types[el]
						if !ok || tv.Value == nil || tv.Value.Kind() != constant.Int {
							return nil, nil, fmt.Errorf("%s.%s: non-constant element", pkgPath, name)
						}
						bi, _ := new(big.Int).SetString(tv.Value.ExactString(), 10)
						out = append(out, bi)
					}
					return out, p.TypesInfo.TypeOf(n), nil
				}
			}
		}
	}
	return nil, nil, fmt.Errorf("variable %s.%s not found", pkgPath, name)
}

// checkImmutableGlobal proves (by whole-program scan of the loaded rcproxy packages) that the
// global is only ever indexed and loaded, never stored to, sliced or passed on.
func (e *Engine) checkImmutableGlobal(g *ssa.Global) error {
	for _, p := range e.prog.AllPackages() {
		if !strings.HasPrefix(p.Pkg.Path(), "rcproxy") {
			continue
		}
		var fns []*ssa.Function
		for _, m := range p.Members {
			switch t := m.(type) {
			case *ssa.Function:
				fns = append(fns, t)
			case *ssa.Type:
				for _, tt := range []types.Type{t.Type(), types.NewPointer(t.Type())} {
					ms := e.prog.MethodSets.MethodSet(tt)
					for i := 0; i < ms.Len(); i++ {
						if f := e.prog.MethodValue(ms.At(i)); f != nil {
							fns = append(fns, f)
						}
					}
				}
			}
		}
		seen := map[*ssa.Function]bool{}
		var all []*ssa.Function
		var add func(f *ssa.Function)
		add = func(f *ssa.Function) {
			if f == nil || seen[f] {
				return
			}
			seen[f] = true
			all = append(all, f)
			for _, a := range f.AnonFuncs {
				add(a)
			}
		}
		for _, f := range fns {
			add(f)
		}
		for _, f := range all {
			for _, b := range f.Blocks {
				for _, in := range b.Instrs {
					for _, op := range in.Operands(nil) {
						if *op != ssa.Value(g) {
							continue
						}
						switch t := in.(type) {
						case *ssa.IndexAddr:
							if f.Name() == "init" && f.Synthetic != "" {
								continue // package initialiser filling in the literal
							}
							if refs := t.Referrers(); refs != nil {
								for _, r := range *refs {
									if u, ok := r.(*ssa.UnOp); ok && u.Op == token.MUL {
										continue
									}
									if _, ok := r.(*ssa.DebugRef); ok {
										continue
									}
									return fmt.Errorf("global %s: element address used by %T in %s", g.Name(), r, f)
								}
							}
						case *ssa.DebugRef:
						case *ssa.Store:
							if f.Name() == "init" && t.Addr == ssa.Value(g) {
								continue
							}
							return fmt.Errorf("global %s is stored to in %s", g.Name(), f)
						case *ssa.UnOp:
							// whole-array load (e.g. range over array copy) is read-only
						default:
							if f.Name() == "init" {
								continue
							}
							return fmt.Errorf("global %s used by %T in %s", g.Name(), in, f)
						}
					}
				}
			}
		}
	}
	return nil
}

// tableDef: "pkgpath.name fname bvN" -> define-fun fname ((i (_ BitVec N))) Elem as an ite chain.
func (e *Engine) tableDef(spec string) (string, error) {
	fs := strings.Fields(spec)
	if len(fs) != 3 {
		return "", fmt.Errorf("table directive needs: pkgpath.name fname bvN")
	}
	i := strings.LastIndex(fs[0], ".")
	vals, t, err := e.arrayLiteral(fs[0][:i], fs[0][i+1:])
	if err != nil {
		return "", err
	}
	var w int
	if _, err := fmt.Sscanf(fs[2], "bv%d", &w); err != nil {
		return "", fmt.Errorf("bad index sort %s", fs[2])
	}
	var et types.Type
	switch u := t.Underlying().(type) {
	case *types.Array:
		et = u.Elem()
	case *types.Slice:
		et = u.Elem()
	default:
		return "", fmt.Errorf("%s is not an array", fs[0])
	}
	_, uns, ew := basicInfo(et)
	if !uns {
		return "", fmt.Errorf("table element type must be unsigned")
	}
	body := bvLit(big.NewInt(0), ew)
	for k := len(vals) - 1; k >= 0; k-- {
		body = fmt.Sprintf("(ite (= i %s) %s %s)", bvLit(big.NewInt(int64(k)), w), bvLit(vals[k], ew), body)
	}
	return fmt.Sprintf("(define-fun %s ((i (_ BitVec %d))) (_ BitVec %d) %s)", fs[1], w, ew, body), nil
}

// ---------- immutable scalar globals ----------

// sliceLiteralBytes recognises `g = []byte{c0, c1, ...}` in a package initialiser: the stored value is a slice of a
// fresh array whose elements are stored as constants.
func sliceLiteralBytes(v ssa.Value) ([]byte, bool) {
	sl, ok := v.(*ssa.Slice)
	if !ok || sl.Low != nil || sl.High != nil {
		return nil, false
	}
	al, ok := sl.X.(*ssa.Alloc)
	if !ok {
		return nil, false
	}
	at, ok := al.Type().(*types.Pointer).Elem().Underlying().(*types.Array)
	if !ok {
		return nil, false
	}
	if b, ok := at.Elem().Underlying().(*types.Basic); !ok || b.Kind() != types.Uint8 {
		return nil, false
	}
	out := make([]byte, at.Len())
	for _, r := range *al.Referrers() {
		switch t := r.(type) {
		case *ssa.IndexAddr:
			ic, ok := t.Index.(*ssa.Const)
			if !ok {
				return nil, false
			}
			for _, rr := range *t.Referrers() {
				st, ok := rr.(*ssa.Store)
				if !ok {
					return nil, false
				}
				c, ok := st.Val.(*ssa.Const)
				if !ok {
					return nil, false
				}
				out[ic.Int64()] = byte(c.Int64())
			}
		case *ssa.Slice, *ssa.DebugRef:
		default:
			return nil, false
		}
	}
	return out, true
}

// readOnlyUses: every use of the loaded slice value only reads its elements (source of append/copy, conversion to
// string, len/cap, indexing for a load); then the literal's bytes never change.
func readOnlyUses(v ssa.Value) bool {
	refs := v.Referrers()
	if refs == nil {
		return true
	}
	for _, r := range *refs {
		switch t := r.(type) {
		case *ssa.DebugRef:
		case *ssa.Convert:
			if b, ok := t.Type().Underlying().(*types.Basic); !ok || b.Info()&types.IsString == 0 {
				return false
			}
		case *ssa.Call:
			b, ok := t.Call.Value.(*ssa.Builtin)
			if !ok {
				return false
			}
			switch b.Name() {
			case "len", "cap":
			case "append", "copy":
				if len(t.Call.Args) < 2 || t.Call.Args[0] == v {
					return false
				}
			default:
				return false
			}
		case *ssa.IndexAddr:
			for _, rr := range *t.Referrers() {
				if u, ok := rr.(*ssa.UnOp); !ok || u.Op != token.MUL {
					if _, dbg := rr.(*ssa.DebugRef); !dbg {
						return false
					}
				}
			}
		case *ssa.Store:
			return false
		default:
			return false
		}
	}
	return true
}

type globalConst struct {
	bytes        []byte // kind "bytes": a []byte literal whose elements are never written
	elemsWritten bool
	immutable bool
	kind      string // "const", "sentinel", "unknown"
	val       *ssa.Const
}

func (e *Engine) allFuncs() []*ssa.Function {
	if e.funcsCache != nil {
		return e.funcsCache
	}
	seen := map[*ssa.Function]bool{}
	var all []*ssa.Function
	var add func(f *ssa.Function)
	add = func(f *ssa.Function) {
		if f == nil || seen[f] {
			return
		}
		seen[f] = true
		all = append(all, f)
		for _, a := range f.AnonFuncs {
			add(a)
		}
	}
	for _, p := range e.prog.AllPackages() {
		if !strings.HasPrefix(p.Pkg.Path(), "rcproxy") {
			continue
		}
		for _, m := range p.Members {
			switch t := m.(type) {
			case *ssa.Function:
				add(t)
			case *ssa.Type:
				for _, tt := range []types.Type{t.Type(), types.NewPointer(t.Type())} {
					ms := e.prog.MethodSets.MethodSet(tt)
					for i := 0; i < ms.Len(); i++ {
						add(e.prog.MethodValue(ms.At(i)))
					}
				}
			}
		}
	}
	e.funcsCache = all
	return all
}

// globalConstInfo decides whether a scalar package-level variable is assigned only by its
// package initialiser (whole-program scan of the rcproxy packages) and what it is initialised to.
func (e *Engine) globalConstInfo(g *ssa.Global) *globalConst {
	if gc, ok := e.gconsts[g]; ok {
		return gc
	}
	gc := &globalConst{immutable: true, kind: "unknown"}
	e.gconsts[g] = gc
	nInit := 0
	for _, f := range e.allFuncs() {
		isInit := f.Name() == "init" && f.Synthetic != ""
		for _, b := range f.Blocks {
			for _, in := range b.Instrs {
				for _, op := range in.Operands(nil) {
					if *op != ssa.Value(g) {
						continue
					}
					switch t := in.(type) {
					case *ssa.Store:
						if t.Addr != ssa.Value(g) {
							gc.immutable = false // address stored somewhere
							continue
						}
						if !isInit {
							gc.immutable = false
							continue
						}
						nInit++
						switch v := t.Val.(type) {
						case *ssa.Const:
							gc.kind, gc.val = "const", v
						case *ssa.Call:
							if c := v.Call.StaticCallee(); c != nil && c.Name() == "New" && c.Pkg != nil && strings.HasSuffix(c.Pkg.Pkg.Path(), "errors") {
								gc.kind = "sentinel"
							}
						case *ssa.Convert:
							if c, ok := v.X.(*ssa.Const); ok {
								gc.kind, gc.val = "const", c
							}
						case *ssa.Slice:
							if bs, ok := sliceLiteralBytes(v); ok {
								gc.kind, gc.bytes = "bytes", bs
							}
						}
					case *ssa.UnOp:
						if t.Op == token.MUL && !readOnlyUses(t) {
							gc.elemsWritten = true
						}
					case *ssa.DebugRef:
					default:
						gc.immutable = false // address escapes
					}
				}
			}
		}
	}
	if nInit > 1 {
		gc.kind = "unknown"
	}
	if gc.kind == "bytes" && gc.elemsWritten {
		gc.kind = "unknown"
	}
	return gc
}

// ---------- immutable global maps initialised by composite literals ----------

type mapTable struct {
	g      *ssa.Global
	hasFn  string
	valFn  string
	ksort  string
	vsort  string
	keys   []constant.Value
	vals   []constant.Value
	kt, vt types.Type
	err    error
}

// mapLiteral reads the key/value constants of a package-level map variable from the loaded source.
func (e *Engine) mapLiteral(pkgPath, name string) ([]constant.Value, []constant.Value, error) {
	p, ok := e.lpkgs[pkgPath]
	if !ok {
		return nil, nil, fmt.Errorf("package %s not loaded", pkgPath)
	}
	for _, f := range p.Syntax {
		for _, d := range f.Decls {
			gd, ok := d.(*ast.GenDecl)
			if !ok || gd.Tok != token.VAR {
				continue
			}
			for _, sp := range gd.Specs {
				vs := sp.(*ast.ValueSpec)
				for i, n := range vs.Names {
					if n.Name != name || i >= len(vs.Values) {
						continue
					}
					cl, ok := vs.Values[i].(*ast.CompositeLit)
					if !ok {
						return nil, nil, fmt.Errorf("%s.%s is not initialised by a composite literal", pkgPath, name)
					}
					var ks, vs2 []constant.Value
					for _, el := range cl.Elts {
						kv, ok := el.(*ast.KeyValueExpr)
						if !ok {
							return nil, nil, fmt.Errorf("%s.%s: element without key", pkgPath, name)
						}
						ktv, ok1 := p.TypesInfo.Types[kv.Key]
						vtv, ok2 := p.TypesInfo.Types[kv.Value]
						if !ok1 || !ok2 || ktv.Value == nil || vtv.Value == nil {
							return nil, nil, fmt.Errorf("%s.%s: non-constant entry", pkgPath, name)
						}
						ks = append(ks, ktv.Value)
						vs2 = append(vs2, vtv.Value)
					}
					return ks, vs2, nil
				}
			}
		}
	}
	return nil, nil, fmt.Errorf("variable %s.%s not found", pkgPath, name)
}

// checkImmutableMap: the global is assigned only by the initialiser and every value loaded from it is
// only looked up, measured or ranged over (whole-program scan).
func (e *Engine) checkImmutableMap(g *ssa.Global) error {
	gc := e.globalConstInfo(g)
	if !gc.immutable {
		return fmt.Errorf("map variable %s is assigned outside its initialiser", g.Name())
	}
	for _, f := range e.allFuncs() {
		for _, b := range f.Blocks {
			for _, in := range b.Instrs {
				u, ok := in.(*ssa.UnOp)
				if !ok || u.Op != token.MUL || u.X != ssa.Value(g) {
					continue
				}
				if refs := u.Referrers(); refs != nil {
					for _, r := range *refs {
						switch t := r.(type) {
						case *ssa.Lookup, *ssa.Range, *ssa.DebugRef:
						case *ssa.Call:
							if bi, ok := t.Call.Value.(*ssa.Builtin); ok && bi.Name() == "len" {
								continue
							}
							return fmt.Errorf("map %s passed to a call in %s", g.Name(), f)
						default:
							return fmt.Errorf("map %s used by %T in %s", g.Name(), r, f)
						}
					}
				}
			}
		}
	}
	return nil
}

func (e *Engine) mapTableFor(g *ssa.Global, fname string) *mapTable {
	if mt, ok := e.mapTables[g]; ok {
		return mt
	}
	mt := &mapTable{g: g, hasFn: fname + "_has", valFn: fname + "_val"}
	e.mapTables[g] = mt
	if err := e.checkImmutableMap(g); err != nil {
		mt.err = err
		return mt
	}
	m, ok := g.Type().(*types.Pointer).Elem().Underlying().(*types.Map)
	if !ok {
		mt.err = fmt.Errorf("%s is not a map", g.Name())
		return mt
	}
	mt.kt, mt.vt = m.Key(), m.Elem()
	mt.keys, mt.vals, mt.err = e.mapLiteral(g.Pkg.Pkg.Path(), g.Name())
	return mt
}

// strIs: content test of a Str term against a literal (map lookups compare contents).
func strIs(s string, lit string) string {
	parts := []string{fmt.Sprintf("(= (s_len %s) %d)", s, len(lit))}
	for i := 0; i < len(lit); i++ {
		parts = append(parts, fmt.Sprintf("(= (s_at %s %d) %s)", s, i, bvLit(big.NewInt(int64(lit[i])), 8)))
	}
	return mkAnd(parts...)
}

// ensureMapTable emits the definitions of <fname>_has / <fname>_val for the map literal.
func (vc *VC) ensureMapTable(mt *mapTable) {
	if mt.err != nil {
		vc.unsup("table %s: %v", mt.g.Name(), mt.err)
	}
	if vc.declared[mt.hasFn] {
		return
	}
	vc.declared[mt.hasFn] = true
	ks := vc.sortOf(mt.kt)
	vs := vc.sortOf(mt.vt)
	mt.ksort, mt.vsort = ks, vs
	test := func(k constant.Value) string {
		if ks == SStr {
			return strIs("k", constant.StringVal(k))
		}
		return "(= k " + vc.constVal(k, mt.kt).S + ")"
	}
	var hs []string
	val := vc.zeroOf(mt.vt)
	for i := len(mt.keys) - 1; i >= 0; i-- {
		hs = append(hs, test(mt.keys[i]))
		val = "(ite " + test(mt.keys[i]) + " " + vc.constVal(mt.vals[i], mt.vt).S + " " + val + ")"
	}
	vc.emit(fmt.Sprintf("(define-fun %s ((k %s)) Bool %s)", mt.hasFn, ks, mkOr(hs...)))
	vc.emit(fmt.Sprintf("(define-fun %s ((k %s)) %s %s)", mt.valFn, ks, vs, val))
	vc.trusted["map "+mt.g.String()+" read through its source literal (assigned only by the initialiser, never updated: whole-program scan)"] = true
}

// lemmaDirective expands the table directives usable in spec/lemmas/*.smt2.
func (e *Engine) lemmaDirective(line string) (string, bool, error) {
	fs := strings.Fields(line)
	if len(fs) < 3 || fs[0] != ";" {
		return "", false, nil
	}
	switch fs[1] {
	case "maptable": // ; maptable pkgpath.global fname
		if len(fs) != 4 {
			return "", true, fmt.Errorf("maptable needs: pkgpath.global fname")
		}
		i := strings.LastIndex(fs[2], ".")
		var g *ssa.Global
		for _, p := range e.prog.AllPackages() {
			if p.Pkg.Path() == fs[2][:i] {
				g, _ = p.Members[fs[2][i+1:]].(*ssa.Global)
			}
		}
		if g == nil {
			return "", true, fmt.Errorf("unknown global %s", fs[2])
		}
		if err := e.checkImmutableMap(g); err != nil {
			return "", true, err
		}
		keys, vals, err := e.mapLiteral(fs[2][:i], fs[2][i+1:])
		if err != nil {
			return "", true, err
		}
		m := g.Type().(*types.Pointer).Elem().Underlying().(*types.Map)
		vc := e.newVC(nil, &FuncSpec{})
		ks, vs := vc.sortOf(m.Key()), vc.sortOf(m.Elem())
		test := func(k constant.Value) string {
			if ks == SStr {
				return strIs("k", constant.StringVal(k))
			}
			return "(= k " + vc.constVal(k, m.Key()).S + ")"
		}
		var hs []string
		val := vc.zeroOf(m.Elem())
		for j := len(keys) - 1; j >= 0; j-- {
			hs = append(hs, test(keys[j]))
			val = "(ite " + test(keys[j]) + " " + vc.constVal(vals[j], m.Elem()).S + " " + val + ")"
		}
		pre := strings.Join(vc.script, "\n")
		return pre + fmt.Sprintf("\n(define-fun %s_has ((k %s)) Bool %s)\n(define-fun %s_val ((k %s)) %s %s)\n(define-fun %s_count () Int %d)",
			fs[3], ks, mkOr(hs...), fs[3], ks, vs, val, fs[3], len(keys)), true, nil
	case "const": // ; const pkgpath.Name fname
		if len(fs) != 4 {
			return "", true, fmt.Errorf("const needs: pkgpath.Name fname")
		}
		i := strings.LastIndex(fs[2], ".")
		p, ok := e.lpkgs[fs[2][:i]]
		if !ok {
			return "", true, fmt.Errorf("package %s not loaded", fs[2][:i])
		}
		c, ok := p.Types.Scope().Lookup(fs[2][i+1:]).(*types.Const)
		if !ok {
			return "", true, fmt.Errorf("constant %s not found", fs[2])
		}
		vc := e.newVC(nil, &FuncSpec{})
		t := vc.constVal(c.Val(), c.Type())
		return fmt.Sprintf("(define-fun %s () %s %s)", fs[3], t.Sort, t.S), true, nil
	case "docs-yes": // ; docs-yes docs/command.md fname : lower-cased names of rows marked Yes
		if len(fs) != 4 {
			return "", true, fmt.Errorf("docs-yes needs: path fname")
		}
		b, err := os.ReadFile(filepath.Join(e.repo, fs[2]))
		if err != nil {
			return "", true, err
		}
		seen := map[string]bool{}
		for _, l := range strings.Split(string(b), "\n") {
			cols := strings.Split(l, "|")
			if len(cols) >= 3 && strings.TrimSpace(cols[2]) == "Yes" {
				seen[strings.ToLower(strings.TrimSpace(cols[1]))] = true
			}
		}
		var names []string
		for n := range seen {
			names = append(names, n)
		}
		sort.Strings(names)
		var hs []string
		for _, n := range names {
			hs = append(hs, strIs("k", n))
		}
		return fmt.Sprintf("(define-fun %s ((k Str)) Bool %s)\n(define-fun %s_count () Int %d)", fs[3], mkOr(hs...), fs[3], len(names)), true, nil
	case "golden-arity": // ; golden-arity spec/arity.json fname
		var doc struct {
			Arity map[string]int `json:"arity"`
		}
		b, err := os.ReadFile(filepath.Join(e.verif, fs[2]))
		if err != nil {
			return "", true, err
		}
		if err := json.Unmarshal(b, &doc); err != nil {
			return "", true, err
		}
		var names []string
		for n := range doc.Arity {
			names = append(names, n)
		}
		sort.Strings(names)
		val := "(- 99)"
		var hs []string
		for _, n := range names {
			hs = append(hs, strIs("k", n))
			val = "(ite " + strIs("k", n) + " " + intLit64(int64(doc.Arity[n])) + " " + val + ")"
		}
		return fmt.Sprintf("(define-fun %s_has ((k Str)) Bool %s)\n(define-fun %s_val ((k Str)) Int %s)", fs[3], mkOr(hs...), fs[3], val), true, nil
	case "golden-set": // ; golden-set spec/writes.json field fname
		if len(fs) != 5 {
			return "", true, fmt.Errorf("golden-set needs: file field fname")
		}
		var doc map[string]interface{}
		b, err := os.ReadFile(filepath.Join(e.verif, fs[2]))
		if err != nil {
			return "", true, err
		}
		if err := json.Unmarshal(b, &doc); err != nil {
			return "", true, err
		}
		arr, _ := doc[fs[3]].([]interface{})
		var hs []string
		for _, x := range arr {
			hs = append(hs, strIs("k", x.(string)))
		}
		return fmt.Sprintf("(define-fun %s ((k Str)) Bool %s)", fs[4], mkOr(hs...)), true, nil
	}
	return "", false, nil
}
