package main

// Immutable global tables read from the loaded source (never hand-copied).

import (
	"fmt"
	"go/ast"
	"go/constant"
	"go/token"
	"go/types"
	"math/big"
	"strings"

	"golang.org/x/tools/go/ssa"
)

// arrayLiteral returns the element values of a package-level array/slice variable
// initialised by a composite literal of integer constants.
func (e *Engine) arrayLiteral(pkgPath, name string) ([]*big.Int, types.Type, error) {
	p, ok := e.lpkgs[pkgPath]
	if !ok {
		return nil, nil, fmt.Errorf("package %s not loaded", pkgPath)
	}
	for _, f := range p.Syntax {
		for _, d := range f.Decls {
			gd, ok := d.(*ast.GenDecl)
			if !ok || gd.Tok != token.VAR {
				continue
			}
			for _, sp := range gd.Specs {
				vs := sp.(*ast.ValueSpec)
				for i, n := range vs.Names {
					if n.Name != name || i >= len(vs.Values) {
						continue
					}
					cl, ok := vs.Values[i].(*ast.CompositeLit)
					if !ok {
						return nil, nil, fmt.Errorf("%s.%s is not initialised by a composite literal", pkgPath, name)
					}
					var out []*big.Int
					for _, el := range cl.Elts {
						if _, isKV := el.(*ast.KeyValueExpr); isKV {
							return nil, nil, fmt.Errorf("%s.%s: keyed elements not supported", pkgPath, name)
						}
						tv, ok := p.TypesInfo.Types[el]
						if !ok || tv.Value == nil || tv.Value.Kind() != constant.Int {
							return nil, nil, fmt.Errorf("%s.%s: non-constant element", pkgPath, name)
						}
						bi, _ := new(big.Int).SetString(tv.Value.ExactString(), 10)
						out = append(out, bi)
					}
					return out, p.TypesInfo.TypeOf(n), nil
				}
			}
		}
	}
	return nil, nil, fmt.Errorf("variable %s.%s not found", pkgPath, name)
}

// checkImmutableGlobal proves (by whole-program scan of the loaded rcproxy packages) that the
// global is only ever indexed and loaded, never stored to, sliced or passed on.
func (e *Engine) checkImmutableGlobal(g *ssa.Global) error {
	for _, p := range e.prog.AllPackages() {
		if !strings.HasPrefix(p.Pkg.Path(), "rcproxy") {
			continue
		}
		var fns []*ssa.Function
		for _, m := range p.Members {
			switch t := m.(type) {
			case *ssa.Function:
				fns = append(fns, t)
			case *ssa.Type:
				for _, tt := range []types.Type{t.Type(), types.NewPointer(t.Type())} {
					ms := e.prog.MethodSets.MethodSet(tt)
					for i := 0; i < ms.Len(); i++ {
						if f := e.prog.MethodValue(ms.At(i)); f != nil {
							fns = append(fns, f)
						}
					}
				}
			}
		}
		seen := map[*ssa.Function]bool{}
		var all []*ssa.Function
		var add func(f *ssa.Function)
		add = func(f *ssa.Function) {
			if f == nil || seen[f] {
				return
			}
			seen[f] = true
			all = append(all, f)
			for _, a := range f.AnonFuncs {
				add(a)
			}
		}
		for _, f := range fns {
			add(f)
		}
		for _, f := range all {
			for _, b := range f.Blocks {
				for _, in := range b.Instrs {
					for _, op := range in.Operands(nil) {
						if *op != ssa.Value(g) {
							continue
						}
						switch t := in.(type) {
						case *ssa.IndexAddr:
							if f.Name() == "init" && f.Synthetic != "" {
								continue // package initialiser filling in the literal
							}
							if refs := t.Referrers(); refs != nil {
								for _, r := range *refs {
									if u, ok := r.(*ssa.UnOp); ok && u.Op == token.MUL {
										continue
									}
									if _, ok := r.(*ssa.DebugRef); ok {
										continue
									}
									return fmt.Errorf("global %s: element address used by %T in %s", g.Name(), r, f)
								}
							}
						case *ssa.DebugRef:
						case *ssa.Store:
							if f.Name() == "init" && t.Addr == ssa.Value(g) {
								continue
							}
							return fmt.Errorf("global %s is stored to in %s", g.Name(), f)
						case *ssa.UnOp:
							// whole-array load (e.g. range over array copy) is read-only
						default:
							if f.Name() == "init" {
								continue
							}
							return fmt.Errorf("global %s used by %T in %s", g.Name(), in, f)
						}
					}
				}
			}
		}
	}
	return nil
}

// tableDef: "pkgpath.name fname bvN" -> define-fun fname ((i (_ BitVec N))) Elem as an ite chain.
func (e *Engine) tableDef(spec string) (string, error) {
	fs := strings.Fields(spec)
	if len(fs) != 3 {
		return "", fmt.Errorf("table directive needs: pkgpath.name fname bvN")
	}
	i := strings.LastIndex(fs[0], ".")
	vals, t, err := e.arrayLiteral(fs[0][:i], fs[0][i+1:])
	if err != nil {
		return "", err
	}
	var w int
	if _, err := fmt.Sscanf(fs[2], "bv%d", &w); err != nil {
		return "", fmt.Errorf("bad index sort %s", fs[2])
	}
	var et types.Type
	switch u := t.Underlying().(type) {
	case *types.Array:
		et = u.Elem()
	case *types.Slice:
		et = u.Elem()
	default:
		return "", fmt.Errorf("%s is not an array", fs[0])
	}
	_, uns, ew := basicInfo(et)
	if !uns {
		return "", fmt.Errorf("table element type must be unsigned")
	}
	body := bvLit(big.NewInt(0), ew)
	for k := len(vals) - 1; k >= 0; k-- {
		body = fmt.Sprintf("(ite (= i %s) %s %s)", bvLit(big.NewInt(int64(k)), w), bvLit(vals[k], ew), body)
	}
	return fmt.Sprintf("(define-fun %s ((i (_ BitVec %d))) (_ BitVec %d) %s)", fs[1], w, ew, body), nil
}

// ---------- immutable scalar globals ----------

type globalConst struct {
	immutable bool
	kind      string // "const", "sentinel", "unknown"
	val       *ssa.Const
}

func (e *Engine) allFuncs() []*ssa.Function {
	if e.funcsCache != nil {
		return e.funcsCache
	}
	seen := map[*ssa.Function]bool{}
	var all []*ssa.Function
	var add func(f *ssa.Function)
	add = func(f *ssa.Function) {
		if f == nil || seen[f] {
			return
		}
		seen[f] = true
		all = append(all, f)
		for _, a := range f.AnonFuncs {
			add(a)
		}
	}
	for _, p := range e.prog.AllPackages() {
		if !strings.HasPrefix(p.Pkg.Path(), "rcproxy") {
			continue
		}
		for _, m := range p.Members {
			switch t := m.(type) {
			case *ssa.Function:
				add(t)
			case *ssa.Type:
				for _, tt := range []types.Type{t.Type(), types.NewPointer(t.Type())} {
					ms := e.prog.MethodSets.MethodSet(tt)
					for i := 0; i < ms.Len(); i++ {
						add(e.prog.MethodValue(ms.At(i)))
					}
				}
			}
		}
	}
	e.funcsCache = all
	return all
}

// globalConstInfo decides whether a scalar package-level variable is assigned only by its
// package initialiser (whole-program scan of the rcproxy packages) and what it is initialised to.
func (e *Engine) globalConstInfo(g *ssa.Global) *globalConst {
	if gc, ok := e.gconsts[g]; ok {
		return gc
	}
	gc := &globalConst{immutable: true, kind: "unknown"}
	e.gconsts[g] = gc
	nInit := 0
	for _, f := range e.allFuncs() {
		isInit := f.Name() == "init" && f.Synthetic != ""
		for _, b := range f.Blocks {
			for _, in := range b.Instrs {
				for _, op := range in.Operands(nil) {
					if *op != ssa.Value(g) {
						continue
					}
					switch t := in.(type) {
					case *ssa.Store:
						if t.Addr != ssa.Value(g) {
							gc.immutable = false // address stored somewhere
							continue
						}
						if !isInit {
							gc.immutable = false
							continue
						}
						nInit++
						switch v := t.Val.(type) {
						case *ssa.Const:
							gc.kind, gc.val = "const", v
						case *ssa.Call:
							if c := v.Call.StaticCallee(); c != nil && c.Name() == "New" && c.Pkg != nil && strings.HasSuffix(c.Pkg.Pkg.Path(), "errors") {
								gc.kind = "sentinel"
							}
						case *ssa.Convert:
							if c, ok := v.X.(*ssa.Const); ok {
								gc.kind, gc.val = "const", c
							}
						}
					case *ssa.UnOp, *ssa.DebugRef:
					default:
						gc.immutable = false // address escapes
					}
				}
			}
		}
	}
	if nInit > 1 {
		gc.kind = "unknown"
	}
	return gc
}
