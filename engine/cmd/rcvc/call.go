package main

import (
	"os"
	"fmt"
	"go/constant"
	"go/token"
	"go/types"
	"sort"
	"strings"

	"golang.org/x/tools/go/ssa"
)

const maxInlineDepth = 5

func shortFuncName(fn *ssa.Function) string {
	if fn.Signature.Recv() != nil {
		if n := namedOf(fn.Signature.Recv().Type()); n != nil {
			return n.Obj().Name() + "." + fn.Name()
		}
	}
	return fn.Name()
}

// specFor finds the contract of a function: package contract file first, then trusted specs.
func (e *Engine) specFor(fn *ssa.Function) *FuncSpec {
	if fn == nil {
		return nil
	}
	if fn.Pkg != nil {
		if ps, ok := e.specs[fn.Pkg.Pkg.Path()]; ok {
			if s, ok := ps.Funcs[shortFuncName(fn)]; ok {
				return s
			}
		}
	}
	var pkgName, pkgPath string
	if fn.Pkg != nil {
		pkgName, pkgPath = fn.Pkg.Pkg.Name(), fn.Pkg.Pkg.Path()
	} else if fn.Object() != nil && fn.Object().Pkg() != nil {
		pkgName, pkgPath = fn.Object().Pkg().Name(), fn.Object().Pkg().Path()
	}
	for _, k := range []string{pkgPath + "." + shortFuncName(fn), pkgName + "." + shortFuncName(fn)} {
		if s, ok := e.trusted.Funcs[k]; ok {
			return s
		}
	}
	return nil
}

func paramNames(fn *ssa.Function) []string {
	var names []string
	if fn.Blocks != nil || len(fn.Params) > 0 {
		for _, p := range fn.Params {
			names = append(names, p.Name())
		}
		return names
	}
	sig := fn.Signature
	if sig.Recv() != nil {
		n := sig.Recv().Name()
		if n == "" {
			n = "recv"
		}
		names = append(names, n)
	}
	for i := 0; i < sig.Params().Len(); i++ {
		n := sig.Params().At(i).Name()
		if n == "" || n == "_" {
			n = fmt.Sprintf("p%d", i)
		}
		names = append(names, n)
	}
	return names
}

func paramTypes(fn *ssa.Function) []types.Type {
	var ts []types.Type
	sig := fn.Signature
	if sig.Recv() != nil {
		ts = append(ts, sig.Recv().Type())
	}
	for i := 0; i < sig.Params().Len(); i++ {
		ts = append(ts, sig.Params().At(i).Type())
	}
	return ts
}

func isPureExternal(fn *ssa.Function) bool {
	var path string
	if fn.Pkg != nil {
		path = fn.Pkg.Pkg.Path()
	} else if fn.Object() != nil && fn.Object().Pkg() != nil {
		path = fn.Object().Pkg().Path()
	}
	switch {
	case strings.HasSuffix(path, "/logging"), path == "fmt", path == "time", path == "strings", path == "strconv",
		path == "bytes", path == "errors", path == "math/rand", path == "net", path == "os",
		strings.HasPrefix(path, "github.com/prometheus"), path == "github.com/pkg/errors", path == "math", path == "math/bits",
		path == "sync/atomic", path == "unicode", path == "unicode/utf8", path == "path", path == "path/filepath",
		path == "context", path == "runtime":
		return true
	}
	return false
}

func (vc *VC) execCall(fr *Frame, st *State, pc string, site ssa.Instruction, c *ssa.CallCommon) Sym {
	if b, ok := c.Value.(*ssa.Builtin); ok {
		// builtins can carry program-point clauses too: `assert at call append#k :: ...` (k-th append in the source)
		if fr.spec != nil && len(fr.spec.Asserts) > 0 {
			vc.atCall(fr, st, pc, b.Name(), vc.callOrdinal(fr, site, b.Name()), site)
		}
		return vc.execBuiltin(fr, st, pc, site, c, b)
	}
	var callee *ssa.Function
	var args []Term
	if c.IsInvoke() {
		recv := vc.value(fr, st, c.Value)
		callee = vc.eng.resolveInvoke(c)
		if callee != nil {
			vc.oblige("nopanic.nil", "", pc, "(not (= "+recv.S+" 0))", site.Pos(), "method call on nil interface: "+c.Method.Name())
		} else {
			vc.eng.noteAssumption("interface values of external types (prometheus metrics, error, time) are non-nil where their methods are called")
		}
		args = append(args, recv)
	} else {
		callee = c.StaticCallee()
		if callee == nil {
			callee = vc.eng.resolveDynamic(c)
		}
	}
	if callee != nil && !c.IsInvoke() && c.StaticCallee() == nil && callee.Signature.Recv() != nil &&
		len(callee.Params) == len(c.Args)+1 {
		// a function-typed field bound (`bind T.f = pkg.Type.method`) to a method value: the receiver the
		// closure captured is not known at the call; it is an arbitrary allocated object of the receiver type
		rt := callee.Signature.Recv().Type()
		rv := vc.fresh("boundrecv", vc.sortOf(rt))
		vc.assumeAllocated(st, rt, rv)
		if _, isPtr := rt.Underlying().(*types.Pointer); isPtr {
			vc.emit("(assert (not (= " + rv + " 0)))")
		}
		args = append(args, Term{S: rv, Sort: vc.sortOf(rt), T: rt})
		vc.trusted["bound method value "+callee.String()+": receiver arbitrary (non-nil)"] = true
	}
	for _, a := range c.Args {
		args = append(args, vc.value(fr, st, a))
	}
	sig := c.Signature()
	if callee == nil {
		// unknown dynamic callee: result arbitrary, state unchanged (noted)
		vc.eng.noteAssumption(fmt.Sprintf("dynamic call %s in %s: result arbitrary, no effect on modelled state", c.String(), fr.fn))
		return vc.havocResults(st, sig.Results())
	}
	if callee.Parent() != nil && callee.Blocks != nil && len(callee.FreeVars) > 0 {
		vc.eng.noteAssumption("closure call " + callee.String() + " not modelled")
		return vc.havocResults(st, sig.Results())
	}
	if callee.Pkg != nil && callee.Pkg.Pkg.Path() == "fmt" && callee.Name() == "Sprintf" {
		if t, ok := vc.sprintf(fr, st, c); ok {
			vc.trusted["fmt.Sprintf with %s/%d verbs only: concatenation of the literal text and the arguments"] = true
			return Sym{T: t}
		}
	}
	short := shortFuncName(callee)
	ord := vc.callOrdinal(fr, site, short)
	vc.atCall(fr, st, pc, short, ord, site)
	spec := vc.eng.specFor(callee)
	if spec != nil && !spec.Inline {
		return vc.applyContract(fr, st, pc, callee, spec, args, site, ord)
	}
	if callee.Pkg != nil && strings.HasSuffix(callee.Pkg.Pkg.Path(), "/logging") {
		vc.trusted["logging calls have no effect on modelled state: "+callee.Pkg.Pkg.Path()] = true
		return vc.havocResults(st, sig.Results())
	}
	if callee.Blocks != nil && vc.eng.inScope(callee) {
		if fr.depth >= maxInlineDepth {
			vc.unsup("inline depth exceeded at %s", callee)
		}
		nf := vc.newFrame(callee, spec, fr.depth+1)
		// implicit nil-receiver check is left to the body
		res, out, opc := vc.execFunc(nf, args, st, pc)
		// execFunc returns a merged state; copy it back
		*st = *out
		_ = opc
		if opc == "false" {
			return vc.havocResults(st, sig.Results())
		}
		return vc.packResults(res, sig.Results())
	}
	if isPureExternal(callee) {
		vc.trusted["assumed pure (result arbitrary, no effect on modelled state): "+callee.String()] = true
		return vc.havocResults(st, sig.Results())
	}
	vc.unsup("call to %s: no contract, not inlinable and not known to be pure", callee)
	return Sym{}
}

func (vc *VC) packResults(res []Term, rt *types.Tuple) Sym {
	switch rt.Len() {
	case 0:
		return Sym{T: Term{S: "0", Sort: SInt}}
	case 1:
		return Sym{T: res[0]}
	}
	var tup []Sym
	for _, r := range res {
		tup = append(tup, Sym{T: r})
	}
	return Sym{Tuple: tup}
}

func (vc *VC) havocResults(st *State, rt *types.Tuple) Sym {
	var res []Term
	for i := 0; i < rt.Len(); i++ {
		t := rt.At(i).Type()
		s := vc.sortOf(t)
		n := vc.fresh("res", s)
		vc.assumeAllocated(st, t, n)
		res = append(res, Term{S: n, Sort: s, T: t})
	}
	return vc.packResults(res, rt)
}

// ---------- builtins ----------

func (vc *VC) execBuiltin(fr *Frame, st *State, pc string, site ssa.Instruction, c *ssa.CallCommon, b *ssa.Builtin) Sym {
	switch b.Name() {
	case "len":
		x := vc.value(fr, st, c.Args[0])
		return Sym{T: vc.lenOf(st, x, c.Args[0].Type())}
	case "cap":
		x := vc.value(fr, st, c.Args[0])
		switch c.Args[0].Type().Underlying().(type) {
		case *types.Slice:
			return Sym{T: Term{S: "(sl.cap " + x.S + ")", Sort: SInt, T: types.Typ[types.Int]}}
		}
		vc.unsup("cap of %s", c.Args[0].Type())
	case "append":
		return Sym{T: vc.doAppend(fr, st, pc, c)}
	case "copy":
		dst := vc.value(fr, st, c.Args[0])
		src := vc.value(fr, st, c.Args[1])
		return Sym{T: vc.doCopy(st, dst, src, c.Args[0].Type(), c.Args[1].Type())}
	case "delete":
		m := vc.value(fr, st, c.Args[0])
		k := vc.value(fr, st, c.Args[1])
		vc.mapDelete(st, c.Args[0].Type().Underlying().(*types.Map), m.S, k.S)
		return Sym{T: Term{S: "0", Sort: SInt}}
	case "ssa:deferstack":
		return Sym{T: Term{S: "0", Sort: SInt}}
	case "print", "println":
		return Sym{T: Term{S: "0", Sort: SInt}}
	case "ssa:wrapnilchk":
		x := vc.value(fr, st, c.Args[0])
		return Sym{T: x}
	case "min", "max":
		x := vc.value(fr, st, c.Args[0])
		y := vc.value(fr, st, c.Args[1])
		if x.Sort == SInt {
			op := "<="
			if b.Name() == "max" {
				op = ">="
			}
			return Sym{T: Term{S: mkIte("("+op+" "+x.S+" "+y.S+")", x.S, y.S), Sort: SInt, T: x.T}}
		}
	}
	vc.unsup("builtin %s", b.Name())
	return Sym{}
}

func (vc *VC) lenOf(st *State, x Term, t types.Type) Term {
	switch u := t.Underlying().(type) {
	case *types.Slice:
		return Term{S: "(sl.len " + x.S + ")", Sort: SInt, T: types.Typ[types.Int]}
	case *types.Basic:
		return Term{S: "(s_len " + x.S + ")", Sort: SInt, T: types.Typ[types.Int]}
	case *types.Map:
		_, _, lk := vc.mapKeys(u)
		ln := sel(vc.heapGet(st, lk).S, x.S)
		vc.emit("(assert (>= " + ln + " 0))") // a map's length is the size of its key set
		return Term{S: mkIte("(= "+x.S+" 0)", "0", ln), Sort: SInt, T: types.Typ[types.Int]}
	case *types.Array:
		return Term{S: fmt.Sprint(u.Len()), Sort: SInt, T: types.Typ[types.Int]}
	case *types.Pointer:
		if a, ok := u.Elem().Underlying().(*types.Array); ok {
			return Term{S: fmt.Sprint(a.Len()), Sort: SInt, T: types.Typ[types.Int]}
		}
	case *types.Chan:
		n := vc.fresh("chanlen", SInt)
		vc.emit("(assert (>= " + n + " 0))")
		return Term{S: n, Sort: SInt, T: types.Typ[types.Int]}
	}
	vc.unsup("len of %s", t)
	return Term{}
}

// doAppend models append(s, t...): in place when capacity suffices, otherwise a fresh backing array.
// Element axioms are stated over absolute indices so that E-matching finds them.
func (vc *VC) doAppend(fr *Frame, st *State, pc string, c *ssa.CallCommon) Term {
	s := vc.value(fr, st, c.Args[0])
	t := vc.value(fr, st, c.Args[1])
	sl := c.Args[0].Type().Underlying().(*types.Slice)
	key := vc.memKey(sl.Elem())
	mem := vc.heapGet(st, key)
	arrS := arrSortElem(mem.Sort)
	var tlen string
	var tat func(i string) string
	if t.Sort == SStr {
		tlen = "(s_len " + t.S + ")"
		tat = func(i string) string { return "(s_at " + t.S + " " + i + ")" }
	} else {
		tN := vc.define("apt", SSlice, t.S)
		tlen = "(sl.len " + tN + ")"
		tat = func(i string) string {
			return sel(sel(mem.S, "(sl.base "+tN+")"), "(+ (sl.off "+tN+") "+i+")")
		}
	}
	sN := vc.define("aps", SSlice, s.S)
	tl := vc.define("aptl", SInt, tlen)
	n := vc.define("apn", SInt, "(+ (sl.len "+sN+") "+tl+")")
	fits := vc.define("apfits", SBool, "(<= "+n+" (sl.cap "+sN+"))")
	newRef := vc.newRef(st, pc)
	newCap := vc.fresh("apcap", SInt)
	vc.emit("(assert (>= " + newCap + " " + n + "))")
	res := vc.fresh("apres", SSlice)
	vc.emit(fmt.Sprintf("(assert (= %s (ite %s (mk-slice (sl.base %s) (sl.off %s) %s (sl.cap %s)) (mk-slice %s 0 %s %s))))", res, fits, sN, sN, n, sN, newRef, n, newCap))
	oldA := sel(mem.S, "(sl.base "+sN+")")
	// in place
	inA := vc.fresh("apin", arrS)
	end := vc.define("apend", SInt, "(+ (sl.off "+sN+") (sl.len "+sN+"))")
	vc.emit(fmt.Sprintf("(assert (forall ((j Int)) (! (= (select %s j) (ite (and (<= %s j) (< j (+ %s %s))) %s (select %s j))) :pattern ((select %s j)))))",
		inA, end, end, tl, tat("(- j "+end+")"), oldA, inA))
	// fresh backing array
	outA := vc.fresh("apout", arrS)
	vc.emit(fmt.Sprintf("(assert (forall ((j Int)) (! (=> (and (<= 0 j) (< j %s)) (= (select %s j) (ite (< j (sl.len %s)) (select %s (+ (sl.off %s) j)) %s))) :pattern ((select %s j)))))",
		n, outA, sN, oldA, sN, tat("(- j (sl.len "+sN+"))"), outA))
	vc.heapSet(st, key, mkIte(fits, store(mem.S, "(sl.base "+sN+")", inA), store(mem.S, newRef, outA)))
	// the same facts through the named element accessor (robust triggers for contract quantifiers)
	ef := vc.elemFn(vc.sortOf(sl.Elem()))
	nm := vc.heapGet(st, key).S
	nmA := vc.define("apna", arrS, sel(nm, "(sl.base "+res+")"))
	oldA2 := vc.define("apoa", arrS, oldA)
	vc.emit(fmt.Sprintf("(assert (forall ((k Int)) (! (=> (and (<= 0 k) (< k (sl.len %s))) (= (%s %s %s k) (%s %s %s k))) :pattern ((%s %s %s k)) :pattern ((%s %s %s k)))))",
		sN, ef, nmA, res, ef, oldA2, sN, ef, nmA, res, ef, oldA2, sN))
	vc.emit(fmt.Sprintf("(assert (=> (>= %s 1) (= (%s %s %s (sl.len %s)) %s)))", tl, ef, nmA, res, sN, tat("0")))
	return Term{S: res, Sort: SSlice, T: c.Args[0].Type()}
}

func (vc *VC) doCopy(st *State, dst, src Term, dt, stt types.Type) Term {
	sl := dt.Underlying().(*types.Slice)
	key := vc.memKey(sl.Elem())
	mem := vc.heapGet(st, key)
	arrS := arrSortElem(mem.Sort)
	var slen string
	var sat func(i string) string
	if src.Sort == SStr {
		slen = "(s_len " + src.S + ")"
		sat = func(i string) string { return "(s_at " + src.S + " " + i + ")" }
	} else {
		sN := vc.define("cps", SSlice, src.S)
		slen = "(sl.len " + sN + ")"
		sat = func(i string) string {
			return sel(sel(mem.S, "(sl.base "+sN+")"), "(+ (sl.off "+sN+") "+i+")")
		}
	}
	d := vc.define("cpd", SSlice, dst.S)
	n := vc.define("cpn", SInt, mkIte("(<= (sl.len "+d+") "+slen+")", "(sl.len "+d+")", slen))
	oldA := sel(mem.S, "(sl.base "+d+")")
	newA := vc.fresh("cpa", arrS)
	vc.emit(fmt.Sprintf("(assert (forall ((j Int)) (! (= (select %s j) (ite (and (<= (sl.off %s) j) (< j (+ (sl.off %s) %s))) %s (select %s j))) :pattern ((select %s j)))))",
		newA, d, d, n, sat("(- j (sl.off "+d+"))"), oldA, newA))
	vc.heapSet(st, key, mkIte("(= "+n+" 0)", mem.S, store(mem.S, "(sl.base "+d+")", newA)))
	return Term{S: n, Sort: SInt, T: types.Typ[types.Int]}
}

// ---------- contracts at call sites ----------

type modTarget struct {
	key   string
	whole bool
	ref   string // object / base
	lo    string // window for element targets ("" = whole array)
	hi    string
	isMem bool
}

// callOrdinal: the k in `F#k` is the position of this call among the calls of F in the function's source text
// (not the order in which the verifier happens to visit the blocks).
func (vc *VC) callOrdinal(fr *Frame, site ssa.Instruction, short string) int {
	if fr.siteOrd == nil {
		fr.siteOrd = map[ssa.Instruction]int{}
		type cs struct {
			in  ssa.Instruction
			pos token.Pos
			idx int
		}
		by := map[string][]cs{}
		n := 0
		for _, b := range fr.fn.Blocks {
			for _, in := range b.Instrs {
				var cc *ssa.CallCommon
				switch t := in.(type) {
				case *ssa.TypeAssert:
					// type assertions can carry program-point clauses as the pseudo-call `typeassert#k`
					n++
					by["typeassert"] = append(by["typeassert"], cs{in, t.Pos(), n})
					continue
				case *ssa.Call:
					cc = &t.Call
				case *ssa.Defer:
					cc = &t.Call
				case *ssa.Go:
					cc = &t.Call
				}
				if cc == nil {
					continue
				}
				if bi, isB := cc.Value.(*ssa.Builtin); isB {
					n++
					by[bi.Name()] = append(by[bi.Name()], cs{in, in.Pos(), n})
					continue
				}
				var callee *ssa.Function
				if cc.IsInvoke() {
					callee = vc.eng.resolveInvoke(cc)
				} else {
					callee = cc.StaticCallee()
					if callee == nil {
						callee = vc.eng.resolveDynamic(cc)
					}
				}
				if callee == nil {
					continue
				}
				n++
				by[shortFuncName(callee)] = append(by[shortFuncName(callee)], cs{in, in.Pos(), n})
			}
		}
		for _, l := range by {
			sort.SliceStable(l, func(i, j int) bool {
				if l[i].pos != l[j].pos {
					return l[i].pos < l[j].pos
				}
				return l[i].idx < l[j].idx
			})
			for k, x := range l {
				fr.siteOrd[x.in] = k
			}
		}
	}
	if k, ok := fr.siteOrd[site]; ok {
		return k
	}
	ord := fr.callOrd[short]
	fr.callOrd[short] = ord + 1
	return 1000 + ord
}

// atCall processes the caller's program-point clauses (`label/assert/assume at call F#k`) keyed by this call.
func (vc *VC) atCall(fr *Frame, st *State, pc string, short string, ord int, site ssa.Instruction) {
	if fr.spec == nil {
		return
	}
	for _, as := range fr.spec.Asserts {
		if as.Callee != short || (as.Ordinal != ord && as.Ordinal != -1) {
			continue
		}
		if fr.matched == nil {
			fr.matched = map[*AssertSpec]bool{}
		}
		fr.matched[as] = true
		if as.Label != "" {
			if fr.labels == nil {
				fr.labels = map[string]*State{}
			}
			fr.labels[as.Label] = st.clone()
			if fr.labelPC == nil {
				fr.labelPC = map[string]string{}
			}
			fr.labelPC[as.Label] = pc
			continue
		}
		cenv := vc.envAt(fr, st)
		// the actual arguments of the call are visible as arg0, arg1, ... (the receiver of a method call is arg0)
		if ci, ok := site.(ssa.CallInstruction); ok {
			k := 0
			if ci.Common().IsInvoke() {
				cenv.vars["arg0"] = vc.value(fr, st, ci.Common().Value) // interface method call: the receiver
				k = 1
			}
			for i, a := range ci.Common().Args {
				t := vc.value(fr, st, a)
				if t.T == nil {
					t.T = a.Type()
				}
				cenv.vars[fmt.Sprintf("arg%d", i+k)] = t
			}
		}
		g := vc.evalBool(cenv, as.Cl.Expr)
		if as.Assume {
			vc.trusted[fmt.Sprintf("assumed at call %s#%d in %s: %s", short, ord, funcName(fr.fn), as.Cl.Src)] = true
		} else {
			lab := fmt.Sprintf("%s#%d", short, ord)
			if as.Cl.Label != "" {
				lab += ":" + as.Cl.Label // e.g. assert[conn.EnqueueOutFrag#0:asking@C13]
			}
			vc.oblige("assert", lab, pc, g, site.Pos(), as.Cl.Src)
		}
		vc.assume(pc, g) // proved above (or explicitly assumed), available below
	}
}

func (vc *VC) applyContract(fr *Frame, st *State, pc string, callee *ssa.Function, spec *FuncSpec, args []Term, site ssa.Instruction, ord int) Sym {
	short := shortFuncName(callee)
	if spec.Trusted {
		vc.trusted["assumed contract: "+callee.String()] = true
	}
	names := paramNames(callee)
	ptypes := paramTypes(callee)
	if len(names) != len(args) {
		vc.unsup("call to %s: %d params vs %d args", callee, len(names), len(args))
	}
	pre := st.clone()
	env := &Env{vc: vc, vars: map[string]Term{}, cur: pre, old: pre, pkg: callee.Pkg, calleeMode: true}
	if callee.Pkg == nil && callee.Object() != nil {
		env.tpkg = callee.Object().Pkg()
	}
	for i, n := range names {
		a := args[i]
		if a.T == nil {
			a.T = ptypes[i]
		}
		a.T = ptypes[i]
		env.vars[n] = a
	}
	// implicit: pointer receiver non-nil
	if callee.Signature.Recv() != nil {
		if _, isPtr := callee.Signature.Recv().Type().Underlying().(*types.Pointer); isPtr {
			vc.nilCheck(pc, args[0].S, site.Pos(), "receiver of "+short)
		}
	}
	for i, rq := range spec.Requires {
		g := vc.evalBool(env, rq.Expr)
		lab := rq.Label
		if lab == "" {
			lab = fmt.Sprint(i)
		}
		vc.oblige("call.requires", fmt.Sprintf("%s#%d.%s", short, ord, lab), pc, g, site.Pos(), rq.Src)
	}
	// havoc
	vc.havocForCall(st, pre, env, callee, spec)
	// results
	rt := callee.Signature.Results()
	var res []Term
	for i := 0; i < rt.Len(); i++ {
		t := rt.At(i).Type()
		s := vc.sortOf(t)
		n := vc.fresh("r_"+callee.Name(), s)
		vc.assumeAllocated(st, t, n)
		res = append(res, Term{S: n, Sort: s, T: t})
	}
	env2 := &Env{vc: vc, vars: withNamedResults(env.vars, rt, res), cur: st, old: pre, pkg: env.pkg, tpkg: env.tpkg, results: res, calleeMode: true}
	for _, en := range spec.Ensures {
		if vc.usesLabels(env2, en.Expr, 0) {
			// a clause about program points inside the callee (reached / atlabel) says nothing a caller can use: dropped
			continue
		}
		g := vc.evalBool(env2, en.Expr)
		vc.assume(pc, g)
	}
	return vc.packResults(res, rt)
}

func (vc *VC) havocForCall(st, pre *State, env *Env, callee *ssa.Function, spec *FuncSpec) {
	if spec.Pure {
		return
	}
	// allocation frontier may advance
	old := vc.heapGet(st, vc.allocKey())
	na := vc.fresh("alloc", SInt)
	vc.emit("(assert (>= " + na + " " + old.S + "))")
	st.heap["ALLOC"] = Term{S: na, Sort: SInt}
	if !spec.HasModifies {
		ms := vc.eng.effectsOf(vc, callee)
		if ms.all {
			vc.unsup("callee %s has unknown effects; give it a modifies clause", callee)
		}
		var keys []string
		for k := range ms.heap {
			keys = append(keys, k)
		}
		sort.Strings(keys)
		for _, k := range keys {
			if k == "ALLOC" || strings.HasPrefix(k, "RV:") {
				continue
			}
			if _, ok := vc.eng.keySorts[k]; !ok {
				continue
			}
			before := vc.heapGet(st, k)
			nv := vc.havocKey(st, k, "hv")
			if !ms.nonfresh[k] && strings.HasPrefix(before.Sort, "(Array Int ") && os.Getenv("VERIF_NO_FRESHFRAME") == "" {
				// the callee writes this key only at objects it allocates itself: older objects keep their value
				vc.emit(fmt.Sprintf("(assert (forall ((r Int)) (! (=> (< (rootof r) %s) (= (select %s r) (select %s r))) :pattern ((select %s r)))))", old.S, nv, before.S, nv))
			}
		}
		return
	}
	targets := vc.modTargets(env, spec)
	byKey := map[string][]modTarget{}
	var keys []string
	for _, t := range targets {
		if _, ok := byKey[t.key]; !ok {
			keys = append(keys, t.key)
		}
		byKey[t.key] = append(byKey[t.key], t)
	}
	sort.Strings(keys)
	for _, k := range keys {
		ts := byKey[k]
		s := vc.heapSortOfKey(k)
		whole := false
		for _, t := range ts {
			if t.whole {
				whole = true
			}
		}
		if whole {
			vc.havocKey(st, k, "hv")
			continue
		}
		cur := vc.heapGet(pre, k).S
		for _, t := range ts {
			if t.isMem && t.lo != "" {
				// window havoc: elements outside [lo,hi) keep their value
				elemArr := vc.fresh("hvw", arrSortElem(s))
				oldArr := sel(cur, t.ref)
				vc.emit(fmt.Sprintf("(assert (forall ((j Int)) (! (=> (or (< j %s) (>= j %s)) (= (select %s j) (select %s j))) :pattern ((select %s j)))))", t.lo, t.hi, elemArr, oldArr, elemArr))
				cur = store(cur, t.ref, elemArr)
			} else {
				cur = store(cur, t.ref, vc.fresh("hvf", arrSortElem(s)))
			}
		}
		vc.heapSet(st, k, cur)
	}
}

func arrSortElem(s string) string {
	// "(Array Int X)" -> X
	if !strings.HasPrefix(s, "(Array ") {
		return s
	}
	inner := s[len("(Array ") : len(s)-1]
	// skip index sort
	depth := 0
	for i, c := range inner {
		if c == '(' {
			depth++
		}
		if c == ')' {
			depth--
		}
		if c == ' ' && depth == 0 {
			return inner[i+1:]
		}
	}
	return inner
}

// modTargets evaluates the modifies clauses of spec in env (pre-state).
func (vc *VC) modTargets(env *Env, spec *FuncSpec) []modTarget {
	return vc.modTargetsOf(env, spec.Modifies)
}

func (vc *VC) modTargetsOf(env *Env, clauses []*Clause) []modTarget {
	var out []modTarget
	for _, cl := range clauses {
		for _, part := range splitTop(cl.Src) {
			if part == "" || part == "nothing" {
				continue
			}
			e, err := parseCExpr(part)
			if err != nil {
				vc.unsup("%s:%d: modifies: %v", cl.File, cl.Line, err)
			}
			out = append(out, vc.evalModTarget(env, e, part)...)
		}
	}
	return out
}

func (vc *VC) evalModTarget(env *Env, e CExpr, src string) []modTarget {
	switch t := e.(type) {
	case CField:
		// Type.field / pkg.Type.field (whole key) or obj.field
		var tn types.Type
		if id, ok := t.X.(CIdent); ok {
			if _, isVar := env.vars[id.Name]; !isVar {
				tn = env.lookupType(id.Name)
			}
		} else if pf, ok := t.X.(CField); ok {
			if pid, ok := pf.X.(CIdent); ok {
				if _, isVar := env.vars[pid.Name]; !isVar && env.lookupPkg(pid.Name) != nil {
					tn = env.lookupType(pid.Name + "." + pf.Name)
				}
			}
		}
		if tn != nil {
			{
				if stt, ok := tn.Underlying().(*types.Struct); ok {
					for i := 0; i < stt.NumFields(); i++ {
						if stt.Field(i).Name() == t.Name {
							key, fs := vc.fieldKey(tn, stt, i)
							if fs == "" {
								vc.unsup("modifies %s: composite field", src)
							}
							return []modTarget{{key: key, whole: true}}
						}
					}
					if gk, ok := vc.eng.ghostKey(tn, t.Name); ok {
						return []modTarget{{key: gk, whole: true}}
					}
				}
				vc.unsup("modifies %s: unknown field", src)
			}
		}
		x := vc.evalTerm(env, t.X)
		l := vc.fieldLVal(env, x, t.Name, true)
		if l == nil {
			vc.unsup("modifies %s: not a heap field", src)
		}
		if l.Kind != LField {
			vc.unsup("modifies %s: not a heap field", src)
		}
		return []modTarget{{key: l.Key, ref: l.Ref}}
	case CCall:
		switch t.Fn {
		case "elems", "mem":
			x := vc.evalTerm(env, t.Args[0])
			if x.Sort != SSlice {
				vc.unsup("modifies %s: not a slice", src)
			}
			sl := x.T.Underlying().(*types.Slice)
			key := vc.memKey(sl.Elem())
			mt := modTarget{key: key, ref: "(sl.base " + x.S + ")", isMem: true}
			if t.Fn == "elems" {
				mt.lo = "(sl.off " + x.S + ")"
				mt.hi = "(+ (sl.off " + x.S + ") (sl.len " + x.S + "))"
			}
			return []modTarget{mt}
		case "capmem":
			x := vc.evalTerm(env, t.Args[0])
			sl := x.T.Underlying().(*types.Slice)
			key := vc.memKey(sl.Elem())
			return []modTarget{{key: key, ref: "(sl.base " + x.S + ")", isMem: true, lo: "(sl.off " + x.S + ")", hi: "(+ (sl.off " + x.S + ") (sl.cap " + x.S + "))"}}
		case "allmem":
			// allmem(byte), allmem(*Node)
			var tyName func(e CExpr) string
			tyName = func(e CExpr) string {
				switch a := e.(type) {
				case CIdent:
					return a.Name
				case CField:
					if id, ok := a.X.(CIdent); ok {
						return id.Name + "." + a.Name
					}
				case CUn:
					if a.Op == "*" {
						return "*" + tyName(a.X)
					}
				}
				return ""
			}
			if lit, ok := t.Args[0].(CLit); ok && lit.Kind == "str" {
				// allmem("[]byte"): an unnamed element type, spelled as a Go type expression
				tv, err := types.Eval(vc.eng.fset, env.typesPkg(), token.NoPos, lit.Val)
				if err != nil || !tv.IsType() {
					vc.unsup("modifies %s: %q is not a type here", src, lit.Val)
				}
				return []modTarget{{key: vc.memKey(tv.Type), whole: true}}
			}
			name := tyName(t.Args[0])
			tt := env.lookupType(name)
			if tt == nil {
				vc.unsup("modifies %s: unknown type", src)
			}
			return []modTarget{{key: vc.memKey(tt), whole: true}}
		case "mapof":
			x := vc.evalTerm(env, t.Args[0])
			mt := x.T.Underlying().(*types.Map)
			dk, vk, lk := vc.mapKeys(mt)
			return []modTarget{{key: dk, ref: x.S}, {key: vk, ref: x.S}, {key: lk, ref: x.S}}
		case "allmaps":
			x := vc.evalTerm(env, t.Args[0])
			mt := x.T.Underlying().(*types.Map)
			dk, vk, lk := vc.mapKeys(mt)
			return []modTarget{{key: dk, whole: true}, {key: vk, whole: true}, {key: lk, whole: true}}
		case "array":
			x := vc.evalTerm(env, t.Args[0])
			pt, ok := x.T.Underlying().(*types.Pointer)
			if !ok {
				vc.unsup("modifies %s: not an array pointer", src)
			}
			arr := pt.Elem().Underlying().(*types.Array)
			return []modTarget{{key: vc.memKey(arr.Elem()), ref: x.S, isMem: true}}
		}
	case CIdent:
		// global variable
		if g := env.lookupGlobal(t.Name); g != nil {
			s := vc.globalSym(env.cur, g)
			if s.L != nil {
				return []modTarget{{key: s.L.Key, whole: true}}
			}
		}
	}
	vc.unsup("modifies target %q not understood", src)
	return nil
}

// ---------- effects ----------

func (e *Engine) effectsOf(vc *VC, fn *ssa.Function) *modSet {
	if ms, ok := e.effects[fn]; ok {
		return ms
	}
	ms := &modSet{cells: map[*ssa.Alloc]bool{}, heap: map[string]bool{}, nonfresh: map[string]bool{}}
	e.effects[fn] = ms // recursion guard (partial result)
	if fn.Blocks == nil {
		return ms
	}
	for _, b := range fn.Blocks {
		for _, in := range b.Instrs {
			vc.instrEffects(fn, in, ms, 0)
		}
	}
	ms.cells = map[*ssa.Alloc]bool{}
	return ms
}

func (vc *VC) addStructKeys(t types.Type, ms *modSet) {
	stt, ok := t.Underlying().(*types.Struct)
	if !ok {
		return
	}
	for i := 0; i < stt.NumFields(); i++ {
		f := stt.Field(i)
		switch u := f.Type().Underlying().(type) {
		case *types.Struct:
			vc.addStructKeys(f.Type(), ms)
		case *types.Array:
			ms.heap[vc.memKey(u.Elem())] = true
		default:
			k, _ := vc.fieldKey(t, stt, i)
			ms.heap[k] = true
		}
	}
}

func rootAlloc(v ssa.Value) *ssa.Alloc {
	for {
		switch t := v.(type) {
		case *ssa.Alloc:
			return t
		case *ssa.FieldAddr:
			v = t.X
		case *ssa.IndexAddr:
			if _, ok := t.X.Type().Underlying().(*types.Pointer); ok {
				v = t.X
			} else {
				return nil
			}
		default:
			return nil
		}
	}
}

func (vc *VC) addrEffect(addr ssa.Value, ms *modSet) {
	if a := rootAlloc(addr); a != nil && cellAlloc(a) {
		ms.cells[a] = true
		return
	}
	et := addr.Type().Underlying().(*types.Pointer).Elem()
	switch t := addr.(type) {
	case *ssa.FieldAddr:
		pt := t.X.Type().Underlying().(*types.Pointer).Elem()
		stt := pt.Underlying().(*types.Struct)
		switch u := et.Underlying().(type) {
		case *types.Struct:
			vc.addStructKeys(et, ms)
		case *types.Array:
			ms.heap[vc.memKey(u.Elem())] = true
		default:
			k, _ := vc.fieldKey(pt, stt, t.Field)
			ms.heap[k] = true
		}
	case *ssa.IndexAddr:
		switch u := t.X.Type().Underlying().(type) {
		case *types.Slice:
			ms.heap[vc.memKey(u.Elem())] = true
		case *types.Pointer:
			ms.heap[vc.memKey(u.Elem().Underlying().(*types.Array).Elem())] = true
		}
	case *ssa.Global:
		switch u := et.Underlying().(type) {
		case *types.Struct:
			vc.addStructKeys(et, ms)
		case *types.Array:
			ms.heap[vc.memKey(u.Elem())] = true
		default:
			key := "G:" + t.Pkg.Pkg.Path() + "." + t.Name()
			vc.regKey(key, vc.sortOf(et))
			ms.heap[key] = true
		}
	default:
		switch u := et.Underlying().(type) {
		case *types.Struct:
			vc.addStructKeys(et, ms)
		case *types.Array:
			ms.heap[vc.memKey(u.Elem())] = true
		default:
			ms.heap[vc.ptrKey(et)] = true
		}
	}
}

// instrEffects adds the effects of one instruction, tracking which keys are written only at objects allocated
// by the function itself (see modSet.nonfresh).
func (vc *VC) instrEffects(fn *ssa.Function, in ssa.Instruction, ms *modSet, depth int) {
	if ms.nonfresh == nil {
		ms.nonfresh = map[string]bool{}
	}
	tmp := &modSet{cells: ms.cells, heap: map[string]bool{}, freshOK: map[string]bool{}}
	vc.instrEffects0(fn, in, tmp, depth)
	fresh := false
	switch t := in.(type) {
	case *ssa.Store:
		if a := rootAlloc(t.Addr); a != nil {
			fresh = true
		}
	case *ssa.Alloc, *ssa.MakeSlice, *ssa.MakeMap, *ssa.MakeClosure, *ssa.MakeChan:
		fresh = true
	case *ssa.Convert:
		fresh = true
	}
	for k := range tmp.heap {
		ms.heap[k] = true
		if !fresh && !tmp.freshOK[k] {
			ms.nonfresh[k] = true
		}
	}
	if tmp.all {
		ms.all = true
	}
}

func (vc *VC) instrEffects0(fn *ssa.Function, in ssa.Instruction, ms *modSet, depth int) {
	switch t := in.(type) {
	case *ssa.Store:
		vc.addrEffect(t.Addr, ms)
	case *ssa.Alloc:
		if cellAlloc(t) {
			ms.cells[t] = true
			return
		}
		ms.heap["ALLOC"] = true
		et := t.Type().(*types.Pointer).Elem()
		switch u := et.Underlying().(type) {
		case *types.Struct:
			vc.addStructKeys(et, ms)
		case *types.Array:
			ms.heap[vc.memKey(u.Elem())] = true
		default:
			ms.heap[vc.ptrKey(et)] = true
		}
	case *ssa.MakeSlice:
		ms.heap["ALLOC"] = true
		ms.heap[vc.memKey(t.Type().Underlying().(*types.Slice).Elem())] = true
	case *ssa.MakeMap:
		ms.heap["ALLOC"] = true
		dk, _, lk := vc.mapKeys(t.Type().Underlying().(*types.Map))
		ms.heap[dk] = true
		ms.heap[lk] = true
	case *ssa.MakeChan, *ssa.MakeClosure:
		ms.heap["ALLOC"] = true
	case *ssa.MapUpdate:
		dk, vk, lk := vc.mapKeys(t.Map.Type().Underlying().(*types.Map))
		ms.heap[dk], ms.heap[vk], ms.heap[lk] = true, true, true
	case *ssa.Convert:
		if _, ok := t.Type().Underlying().(*types.Slice); ok {
			ms.heap["ALLOC"] = true
			ms.heap[vc.memKey(types.Typ[types.Uint8])] = true
		}
	case *ssa.Range:
		if _, ok := t.X.Type().Underlying().(*types.Map); ok {
			key := fmt.Sprintf("RV:%s:%d", fn.String(), t.Pos())
			ms.heap[key] = true
		}
	case *ssa.Next:
		if r, ok := t.Iter.(*ssa.Range); ok {
			if _, ok := r.X.Type().Underlying().(*types.Map); ok {
				key := fmt.Sprintf("RV:%s:%d", fn.String(), r.Pos())
				ms.heap[key] = true
			}
		}
	case *ssa.Call:
		vc.callEffects(fn, &t.Call, ms, depth)
	case *ssa.Defer:
		vc.callEffects(fn, &t.Call, ms, depth)
	case *ssa.Go:
	}
}

func (vc *VC) callEffects(fn *ssa.Function, c *ssa.CallCommon, ms *modSet, depth int) {
	if b, ok := c.Value.(*ssa.Builtin); ok {
		switch b.Name() {
		case "append":
			ms.heap["ALLOC"] = true
			ms.heap[vc.memKey(c.Args[0].Type().Underlying().(*types.Slice).Elem())] = true
		case "copy":
			ms.heap[vc.memKey(c.Args[0].Type().Underlying().(*types.Slice).Elem())] = true
		case "delete":
			dk, _, lk := vc.mapKeys(c.Args[0].Type().Underlying().(*types.Map))
			ms.heap[dk], ms.heap[lk] = true, true
		}
		return
	}
	var callee *ssa.Function
	if c.IsInvoke() {
		callee = vc.eng.resolveInvoke(c)
	} else {
		callee = c.StaticCallee()
		if callee == nil {
			callee = vc.eng.resolveDynamic(c)
		}
	}
	if callee == nil {
		return
	}
	spec := vc.eng.specFor(callee)
	if spec != nil && !spec.Inline {
		if spec.Pure {
			return
		}
		ms.heap["ALLOC"] = true
		if spec.HasModifies {
			for k := range vc.eng.modKeysOf(vc, callee, spec) {
				ms.heap[k] = true
			}
			return
		}
	}
	if callee.Pkg != nil && strings.HasSuffix(callee.Pkg.Pkg.Path(), "/logging") {
		return
	}
	if callee.Blocks != nil && vc.eng.inScope(callee) {
		sub := vc.eng.effectsOf(vc, callee)
		for k := range sub.heap {
			ms.heap[k] = true
			if ms.freshOK != nil && !sub.nonfresh[k] && !sub.all {
				ms.freshOK[k] = true
			}
		}
		if sub.all {
			ms.all = true
		}
	}
}

// modKeysOf computes the heap keys named by a modifies clause (types only; evaluated in a scratch context).
func (e *Engine) modKeysOf(vc *VC, callee *ssa.Function, spec *FuncSpec) map[string]bool {
	if m, ok := e.modKeys[callee]; ok {
		return m
	}
	keys := map[string]bool{}
	e.modKeys[callee] = keys
	vc.scratch(func() {
		names := paramNames(callee)
		ptypes := paramTypes(callee)
		st := newState()
		env := &Env{vc: vc, vars: map[string]Term{}, cur: st, old: st, pkg: callee.Pkg, calleeMode: true}
		if callee.Pkg == nil && callee.Object() != nil {
			env.tpkg = callee.Object().Pkg()
		}
		for i, n := range names {
			s := vc.sortOf(ptypes[i])
			env.vars[n] = Term{S: vc.fresh("scratch", s), Sort: s, T: ptypes[i]}
		}
		for _, t := range vc.modTargets(env, spec) {
			keys[t.key] = true
		}
	})
	return keys
}

// scratch runs f and discards every script line and declaration it produced.
func (vc *VC) scratch(f func()) {
	n := len(vc.script)
	nf := vc.nfresh
	saved := map[string]bool{}
	for k := range vc.declared {
		saved[k] = true
	}
	savedLits := map[string]Term{}
	for k, v := range vc.strlits {
		savedLits[k] = v
	}
	nobs := len(vc.obs)
	savedOld := vc.oldAt
	vc.oldAt = map[string]map[string]bool{}
	for k, m := range savedOld {
		vc.oldAt[k] = map[string]bool{}
		for f := range m {
			vc.oldAt[k][f] = true
		}
	}
	f()
	vc.oldAt = savedOld
	vc.script = vc.script[:n]
	vc.nfresh = nf
	vc.declared = saved
	vc.strlits = savedLits
	vc.obs = vc.obs[:nobs]
}

var _ = token.NoPos

func withNamedResults(vars map[string]Term, rt *types.Tuple, res []Term) map[string]Term {
	out := map[string]Term{}
	for k, v := range vars {
		out[k] = v
	}
	for i := 0; i < rt.Len() && i < len(res); i++ {
		if n := rt.At(i).Name(); n != "" && n != "_" {
			if _, clash := out[n]; !clash {
				out[n] = res[i]
			}
		}
	}
	return out
}

// fmtvTerm: the text fmt prints for a slice with %v, as an uninterpreted function fmtv!<elem> of the backing
// array and the slice descriptor.
func (vc *VC) fmtvTerm(st *State, x Term) string {
	sl := x.T.Underlying().(*types.Slice)
	key := vc.memKey(sl.Elem())
	mem := vc.heapGet(st, key)
	es := vc.sortOf(sl.Elem())
	fn := q("fmtv!" + es)
	if !vc.declared[fn] {
		vc.declared[fn] = true
		vc.emit("(declare-fun " + fn + " (" + arrSort(SInt, es) + " Slice) Str)")
	}
	return "(" + fn + " (select " + mem.S + " (sl.base " + x.S + ")) " + x.S + ")"
}

// sprintf models fmt.Sprintf for a constant format made of literal text, %s and %d.
func (vc *VC) sprintf(fr *Frame, st *State, c *ssa.CallCommon) (Term, bool) {
	fc, ok := c.Args[0].(*ssa.Const)
	if !ok || len(c.Args) != 2 {
		return Term{}, false
	}
	format := constant.StringVal(fc.Value)
	// collect the variadic arguments from the stores into the varargs array
	var argv []ssa.Value
	switch a := c.Args[1].(type) {
	case *ssa.Slice:
		alloc, ok := a.X.(*ssa.Alloc)
		if !ok {
			return Term{}, false
		}
		n := int(alloc.Type().(*types.Pointer).Elem().Underlying().(*types.Array).Len())
		argv = make([]ssa.Value, n)
		for _, r := range *alloc.Referrers() {
			ia, ok := r.(*ssa.IndexAddr)
			if !ok {
				continue
			}
			ic, ok := ia.Index.(*ssa.Const)
			if !ok {
				return Term{}, false
			}
			idx := int(ic.Int64())
			for _, rr := range *ia.Referrers() {
				if stt, ok := rr.(*ssa.Store); ok {
					if mi, ok := stt.Val.(*ssa.MakeInterface); ok {
						argv[idx] = mi.X
					}
				}
			}
		}
	case *ssa.Const:
		// no arguments
	default:
		return Term{}, false
	}
	var parts []string
	lit := ""
	ai := 0
	flush := func() {
		if lit != "" {
			parts = append(parts, vc.strLit(lit).S)
			lit = ""
		}
	}
	for i := 0; i < len(format); i++ {
		if format[i] != '%' {
			lit += string(format[i])
			continue
		}
		if i+1 >= len(format) {
			return Term{}, false
		}
		i++
		switch format[i] {
		case '%':
			lit += "%"
		case 's', 'd', 'v':
			if ai >= len(argv) || argv[ai] == nil {
				return Term{}, false
			}
			flush()
			x := vc.value(fr, st, argv[ai])
			ai++
			switch {
			case format[i] == 'v' && x.Sort == SSlice && x.T != nil:
				// %v of a slice: an uninterpreted function of the slice's elements (what the text looks like is
				// not modelled, only that it is determined by them)
				parts = append(parts, vc.fmtvTerm(st, x))
			case x.Sort == SStr:
				parts = append(parts, x.S)
			case x.Sort == SSlice && format[i] == 's':
				key := vc.memKey(types.Typ[types.Uint8])
				mem := vc.heapGet(st, key)
				parts = append(parts, vc.define("str", SStr, fmt.Sprintf("(s_of (select %s (sl.base %s)) (sl.off %s) (sl.len %s))", mem.S, x.S, x.S, x.S)))
			case x.Sort == SInt && format[i] == 'd':
				vc.uses["strs"] = true
				parts = append(parts, "(itoa "+x.S+")")
			case format[i] == 'd' && strings.HasPrefix(x.Sort, "(_ BitVec"):
				vc.uses["strs"] = true
				parts = append(parts, "(itoa "+vc.toInt(x).S+")")
			default:
				return Term{}, false
			}
		default:
			return Term{}, false
		}
	}
	flush()
	if ai != len(argv) {
		return Term{}, false
	}
	if len(parts) == 0 {
		return vc.strLit(""), true
	}
	res := parts[len(parts)-1]
	for i := len(parts) - 2; i >= 0; i-- {
		res = "(s_cat " + parts[i] + " " + res + ")"
	}
	return Term{S: vc.define("fmt", SStr, res), Sort: SStr, T: types.Typ[types.String]}, true
}

// usesLabels reports whether a contract expression mentions reached(L) or atlabel(L, e), directly or through macros.
func (vc *VC) usesLabels(env *Env, e CExpr, depth int) bool {
	if depth > 20 {
		return false
	}
	switch t := e.(type) {
	case CField:
		return vc.usesLabels(env, t.X, depth)
	case CIndex:
		return vc.usesLabels(env, t.X, depth) || vc.usesLabels(env, t.I, depth)
	case CSlice:
		return vc.usesLabels(env, t.X, depth) || (t.Lo != nil && vc.usesLabels(env, t.Lo, depth)) || (t.Hi != nil && vc.usesLabels(env, t.Hi, depth))
	case CUn:
		return vc.usesLabels(env, t.X, depth)
	case CBin:
		return vc.usesLabels(env, t.L, depth) || vc.usesLabels(env, t.R, depth)
	case CQuant:
		return vc.usesLabels(env, t.Body, depth)
	case CCall:
		if t.Fn == "reached" || t.Fn == "atlabel" {
			return true
		}
		for _, a := range t.Args {
			if vc.usesLabels(env, a, depth) {
				return true
			}
		}
		if m, _ := vc.eng.macro(env, t.Fn); m != nil {
			return vc.usesLabels(env, m.Body, depth+1)
		}
	}
	return false
}
