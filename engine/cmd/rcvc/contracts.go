package main

// Contract files: comment-only Go files `*_contracts_verif.go` (build tag
// verif) next to the code in /repo, plus assumed contracts for external
// functions in /verif/spec/trusted/*.spec. Only lines starting with `//@` are read.

import (
	"bufio"
	"fmt"
	"os"
	"path/filepath"
	"sort"
	"strconv"
	"strings"
)

type Clause struct {
	Label string
	Src   string
	Expr  CExpr
	File  string
	Line  int
}

type LoopSpec struct {
	Invs        []*Clause
	BackEdge    []*Clause // checked on every back edge (never assumed at the head): what an iteration that continues has done
	Decr        *Clause
	Modifies    []*Clause
	HasModifies bool
}

func (fs *FuncSpec) hasLabel(name string) bool {
	if fs == nil {
		return false
	}
	for _, a := range fs.Asserts {
		if a.Label == name {
			return true
		}
	}
	return false
}

type AssertSpec struct {
	Callee  string // at call <callee>#<k>
	Ordinal int
	Cl      *Clause
	Assume  bool // unchecked assumption (listed in the evidence) instead of an obligation
	Label   string // `label L at call X#k`: snapshot of the state before the call, usable as at(L, e)
}

type FuncSpec struct {
	Name        string // as written in the file: hash, MsgQueue.PushTail, strings.Index
	PkgPath     string
	File        string
	Line        int
	Props       []string
	Requires    []*Clause
	Ensures     []*Clause
	Modifies    []*Clause
	HasModifies bool
	Loops       map[int]*LoopSpec
	Asserts     []*AssertSpec
	Trusted     bool // contract assumed, body not verified
	ImplCheck   bool // with Trusted: the body is still checked for panics, at-call asserts and `impl.` postconditions
	Pure        bool // modifies nothing
	Inline      bool
	Overflow    bool
	AllocBound  bool
	NoPanicOnly bool
	Uses        []string
	Ghost       map[string]string // ghost locals (unused for now)
	Covers      bool
	DeadReturns map[int]bool // `unreachable return K ...`: returns the contract itself rules out (defensive code)
}

type GhostField struct {
	Type  string // Msg
	Field string
	Sort  string
}

type Macro struct {
	Name   string
	Params []string
	Body   CExpr
	Src    string
}

type PkgSpec struct {
	PkgPath string
	Funcs   map[string]*FuncSpec
	Uses    []string
	Ghosts  []GhostField
	Binds   map[string]string
	Tables  map[string]string // global name -> spec function
	Macros  map[string]*Macro
	Files   []string
}

var clauseKeywords = map[string]bool{
	"use": true, "func": true, "props": true, "requires": true, "ensures": true, "modifies": true,
	"loop": true, "invariant": true, "backedge": true, "decreases": true, "flags": true, "ghost": true, "assert": true, "assume": true, "label": true, "bind": true, "unreachable": true, "table": true, "define": true,
}

func splitLabel(kw string) (string, string) {
	if i := strings.Index(kw, "["); i >= 0 && strings.HasSuffix(kw, "]") {
		return kw[:i], kw[i+1 : len(kw)-1]
	}
	return kw, ""
}

func parseContractFile(path, pkgPath string, ps *PkgSpec) error {
	f, err := os.Open(path)
	if err != nil {
		return err
	}
	defer f.Close()
	sc := bufio.NewScanner(f)
	sc.Buffer(make([]byte, 1<<20), 1<<20)
	var cur *FuncSpec
	var curLoop *LoopSpec
	var lastClause *Clause
	var fileUses []string
	lineNo := 0
	type macroClause struct {
		m  *Macro
		cl *Clause
	}
	var macroClauses []macroClause
	var all []*Clause
	for sc.Scan() {
		lineNo++
		line := strings.TrimSpace(sc.Text())
		if !strings.HasPrefix(line, "//@") {
			continue
		}
		body := strings.TrimSpace(line[3:])
		if body == "" {
			continue
		}
		fields := strings.Fields(body)
		kw, label := splitLabel(fields[0])
		rest := strings.TrimSpace(body[len(fields[0]):])
		if !clauseKeywords[kw] {
			// continuation of previous clause
			if lastClause == nil {
				return fmt.Errorf("%s:%d: continuation without clause: %s", path, lineNo, body)
			}
			lastClause.Src += " " + body
			continue
		}
		lastClause = nil
		switch kw {
		case "use":
			if cur == nil {
				fileUses = append(fileUses, strings.Fields(rest)...)
			} else {
				cur.Uses = append(cur.Uses, strings.Fields(rest)...)
			}
		case "ghost":
			// ghost field Msg.seq Int
			fs := strings.Fields(rest)
			if len(fs) >= 3 && fs[0] == "field" {
				// ghost field [pkgpath.]Type.field Sort...
				i := strings.LastIndex(fs[1], ".")
				ps.Ghosts = append(ps.Ghosts, GhostField{fs[1][:i], fs[1][i+1:], strings.Join(fs[2:], " ")})
			} else {
				return fmt.Errorf("%s:%d: bad ghost declaration", path, lineNo)
			}
		case "define":
			// define name(a, b) = expr   (may continue on following lines)
			i := strings.Index(rest, "=")
			if i < 0 {
				return fmt.Errorf("%s:%d: define needs '='", path, lineNo)
			}
			head := strings.TrimSpace(rest[:i])
			j := strings.Index(head, "(")
			if j < 0 || !strings.HasSuffix(head, ")") {
				return fmt.Errorf("%s:%d: define name(params) = expr", path, lineNo)
			}
			m := &Macro{Name: head[:j]}
			for _, pn := range strings.Split(head[j+1:len(head)-1], ",") {
				if pn = strings.TrimSpace(pn); pn != "" {
					m.Params = append(m.Params, pn)
				}
			}
			cl := &Clause{Src: strings.TrimSpace(rest[i+1:]), File: path, Line: lineNo}
			lastClause = cl
			macroClauses = append(macroClauses, macroClause{m, cl})
			ps.Macros[m.Name] = m
		case "table":
			fs := strings.Fields(rest)
			if len(fs) != 2 {
				return fmt.Errorf("%s:%d: table <global> <specfn>", path, lineNo)
			}
			ps.Tables[fs[0]] = fs[1]
		case "bind":
			fs := strings.SplitN(rest, "=", 2)
			if len(fs) != 2 {
				return fmt.Errorf("%s:%d: bad bind", path, lineNo)
			}
			ps.Binds[strings.TrimSpace(fs[0])] = strings.TrimSpace(fs[1])
		case "func":
			name := strings.TrimSpace(rest)
			cur = &FuncSpec{Name: name, PkgPath: pkgPath, File: path, Line: lineNo, Loops: map[int]*LoopSpec{}, Covers: true}
			cur.Uses = append(cur.Uses, fileUses...)
			curLoop = nil
			if _, dup := ps.Funcs[name]; dup {
				return fmt.Errorf("%s:%d: duplicate contract for %s", path, lineNo, name)
			}
			ps.Funcs[name] = cur
		default:
			if cur == nil {
				return fmt.Errorf("%s:%d: clause outside func", path, lineNo)
			}
			switch kw {
			case "props":
				cur.Props = append(cur.Props, strings.Fields(rest)...)
			case "flags":
				for _, fl := range strings.Fields(rest) {
					switch fl {
					case "trusted":
						cur.Trusted = true
					case "implcheck":
						cur.ImplCheck = true
					case "pure":
						cur.Pure = true
					case "inline":
						cur.Inline = true
					case "overflow":
						cur.Overflow = true
					case "allocbound":
						cur.AllocBound = true
					case "nocover":
						cur.Covers = false
					default:
						return fmt.Errorf("%s:%d: unknown flag %s", path, lineNo, fl)
					}
				}
			case "unreachable":
				// unreachable return K1 K2 ... : these return statements (in source order, from 0) cannot be reached
				// when the preconditions hold; every other return must be reachable (vacuity guard)
				fs := strings.Fields(rest)
				if len(fs) < 2 || fs[0] != "return" {
					return fmt.Errorf("%s:%d: expected `unreachable return K ...`", path, lineNo)
				}
				if cur.DeadReturns == nil {
					cur.DeadReturns = map[int]bool{}
				}
				for _, f := range fs[1:] {
					k, err := strconv.Atoi(f)
					if err != nil {
						return fmt.Errorf("%s:%d: bad return ordinal %q", path, lineNo, f)
					}
					cur.DeadReturns[k] = true
				}
			case "loop":
				k, err := strconv.Atoi(strings.TrimSuffix(strings.TrimSpace(rest), ":"))
				if err != nil {
					return fmt.Errorf("%s:%d: bad loop ordinal", path, lineNo)
				}
				curLoop = &LoopSpec{}
				cur.Loops[k] = curLoop
			case "label":
				// label L at call callee#k
				fs := strings.Fields(rest)
				if len(fs) != 4 || fs[1] != "at" || fs[2] != "call" {
					return fmt.Errorf("%s:%d: label L at call <callee>#<k>", path, lineNo)
				}
				as := &AssertSpec{Label: fs[0], Callee: fs[3], Cl: &Clause{File: path, Line: lineNo}}
				if j := strings.Index(fs[3], "#"); j >= 0 {
					as.Callee = fs[3][:j]
					as.Ordinal, _ = strconv.Atoi(fs[3][j+1:])
				}
				cur.Asserts = append(cur.Asserts, as)
			case "requires", "ensures", "modifies", "invariant", "backedge", "decreases", "assert", "assume":
				cl := &Clause{Label: label, Src: rest, File: path, Line: lineNo}
				all = append(all, cl)
				lastClause = cl
				if curLoop != nil && (kw == "requires" || kw == "ensures") {
					// a function-level clause after a loop section means the contract is laid out wrongly: a
					// `modifies` next to it would silently have become the loop's
					return fmt.Errorf("%s:%d: %s after a loop section (function-level clauses come before the loops)", path, lineNo, kw)
				}
				switch kw {
				case "requires":
					cur.Requires = append(cur.Requires, cl)
				case "ensures":
					cur.Ensures = append(cur.Ensures, cl)
				case "modifies":
					if curLoop != nil {
						curLoop.HasModifies = true
						curLoop.Modifies = append(curLoop.Modifies, cl)
					} else {
						cur.HasModifies = true
						cur.Modifies = append(cur.Modifies, cl)
					}
				case "invariant":
					if curLoop == nil {
						return fmt.Errorf("%s:%d: invariant outside loop", path, lineNo)
					}
					curLoop.Invs = append(curLoop.Invs, cl)
				case "backedge":
					if curLoop == nil {
						return fmt.Errorf("%s:%d: backedge outside loop", path, lineNo)
					}
					curLoop.BackEdge = append(curLoop.BackEdge, cl)
				case "decreases":
					if curLoop == nil {
						return fmt.Errorf("%s:%d: decreases outside loop", path, lineNo)
					}
					curLoop.Decr = cl
				case "assert":
					// assert at call <callee>#<k> :: expr
					cur.Asserts = append(cur.Asserts, &AssertSpec{Cl: cl})
				case "assume":
					cur.Asserts = append(cur.Asserts, &AssertSpec{Cl: cl, Assume: true})
				}
			}
		}
	}
	// parse expressions
	for _, cl := range all {
		src := cl.Src
		if src == "" || strings.HasPrefix(src, "at call ") {
			continue
		}
		e, err := parseCExpr(src)
		if err != nil {
			// modifies clauses may be comma separated lists; handled by caller
			cl.Expr = nil
			if !strings.Contains(src, ",") {
				return fmt.Errorf("%s:%d: %v", cl.File, cl.Line, err)
			}
			continue
		}
		cl.Expr = e
	}
	for _, mc := range macroClauses {
		e, err := parseCExpr(mc.cl.Src)
		if err != nil {
			return fmt.Errorf("%s:%d: %v", mc.cl.File, mc.cl.Line, err)
		}
		mc.m.Body = e
		mc.m.Src = mc.cl.Src
	}
	// program-point asserts: "at call X#k :: e"
	for _, fs := range ps.Funcs {
		for _, a := range fs.Asserts {
			if a.Callee != "" {
				continue // already processed (earlier file of the same package)
			}
			src := a.Cl.Src
			if !strings.HasPrefix(src, "at call ") {
				return fmt.Errorf("%s:%d: assert must be 'at call <callee>#<k> :: expr'", a.Cl.File, a.Cl.Line)
			}
			src = strings.TrimPrefix(src, "at call ")
			i := strings.Index(src, "::")
			if i < 0 {
				return fmt.Errorf("%s:%d: assert needs '::'", a.Cl.File, a.Cl.Line)
			}
			loc := strings.TrimSpace(src[:i])
			a.Callee = loc
			a.Ordinal = -1 // no ordinal: every call of that function
			if j := strings.Index(loc, "#"); j >= 0 {
				a.Callee = loc[:j]
				a.Ordinal, _ = strconv.Atoi(loc[j+1:])
			}
			e, err := parseCExpr(strings.TrimSpace(src[i+2:]))
			if err != nil {
				return fmt.Errorf("%s:%d: %v", a.Cl.File, a.Cl.Line, err)
			}
			a.Cl.Expr = e
			a.Cl.Src = strings.TrimSpace(src[i+2:])
		}
	}
	ps.Files = append(ps.Files, path)
	return nil
}

// splitTop splits a comma separated list at top level (outside brackets).
func splitTop(s string) []string {
	var out []string
	depth := 0
	start := 0
	for i, c := range s {
		switch c {
		case '(', '[':
			depth++
		case ')', ']':
			depth--
		case ',':
			if depth == 0 {
				out = append(out, strings.TrimSpace(s[start:i]))
				start = i + 1
			}
		}
	}
	out = append(out, strings.TrimSpace(s[start:]))
	return out
}

func loadPkgSpecs(dir, pkgPath string) (*PkgSpec, error) {
	ps := &PkgSpec{PkgPath: pkgPath, Funcs: map[string]*FuncSpec{}, Binds: map[string]string{}, Tables: map[string]string{}, Macros: map[string]*Macro{}}
	files, _ := filepath.Glob(filepath.Join(dir, "*_contracts_verif.go"))
	sort.Strings(files)
	for _, f := range files {
		if err := parseContractFile(f, pkgPath, ps); err != nil {
			return nil, err
		}
	}
	return ps, nil
}

func loadTrustedSpecs(dir string) (*PkgSpec, error) {
	ps := &PkgSpec{PkgPath: "", Funcs: map[string]*FuncSpec{}, Binds: map[string]string{}, Tables: map[string]string{}, Macros: map[string]*Macro{}}
	files, _ := filepath.Glob(filepath.Join(dir, "*.spec"))
	sort.Strings(files)
	for _, f := range files {
		if err := parseContractFile(f, "", ps); err != nil {
			return nil, err
		}
	}
	for _, fs := range ps.Funcs {
		fs.Trusted = true
	}
	return ps, nil
}
