package main

import (
	"bytes"
	"context"
	"fmt"
	"os"
	"os/exec"
	"path/filepath"
	"sort"
	"strings"
	"sync"
	"time"
)

type solverSpec struct {
	name string
	argv func(file string, timeoutSec int) []string
}

var solvers = []solverSpec{
	{"z3-new", func(f string, t int) []string { return []string{"z3-new", fmt.Sprintf("-T:%d", t), f} }},
	{"z3-new/noauto", func(f string, t int) []string {
		return []string{"z3-new", fmt.Sprintf("-T:%d", t), "smt.auto_config=false", f}
	}},
	{"z3-new/arith2", func(f string, t int) []string {
		return []string{"z3-new", fmt.Sprintf("-T:%d", t), "smt.arith.solver=2", f}
	}},
	{"z3", func(f string, t int) []string { return []string{"z3", fmt.Sprintf("-T:%d", t), f} }},
	{"cvc5", func(f string, t int) []string {
		return []string{"cvc5", "--lang=smt2", fmt.Sprintf("--tlimit=%d", t*1000), f}
	}},
}

type solveResult struct {
	status  string // unsat sat unknown timeout error
	solver  string
	seconds float64
	output  string
}

func runSolver(s solverSpec, file string, timeoutSec int) solveResult {
	return runSolverCtx(context.Background(), s, file, timeoutSec)
}

// raceSolvers runs every configuration at once and returns as soon as one decides (the others are killed);
// used for the few obligations the default configuration does not settle within a few seconds.
func raceSolvers(file string, timeoutSec int) []solveResult {
	ctx, cancel := context.WithCancel(context.Background())
	defer cancel()
	ch := make(chan solveResult, len(solvers))
	for _, sv := range solvers {
		go func(sv solverSpec) { ch <- runSolverCtx(ctx, sv, file, timeoutSec) }(sv)
	}
	var out []solveResult
	for range solvers {
		r := <-ch
		out = append(out, r)
		if r.status == "unsat" || r.status == "sat" {
			break
		}
	}
	return out
}

func runSolverCtx(parent context.Context, s solverSpec, file string, timeoutSec int) solveResult {
	start := time.Now()
	ctx, cancel := context.WithTimeout(parent, time.Duration(timeoutSec+5)*time.Second)
	defer cancel()
	argv := s.argv(file, timeoutSec)
	cmd := exec.CommandContext(ctx, argv[0], argv[1:]...)
	var out bytes.Buffer
	cmd.Stdout = &out
	cmd.Stderr = &out
	_ = cmd.Run()
	secs := time.Since(start).Seconds()
	text := out.String()
	first := ""
	for _, ln := range strings.Split(text, "\n") {
		ln = strings.TrimSpace(ln)
		if ln == "" || strings.HasPrefix(ln, "WARNING") {
			continue
		}
		first = ln
		break
	}
	res := solveResult{solver: s.name, seconds: secs, output: text}
	switch {
	case first == "unsat":
		res.status = "unsat"
	case first == "sat":
		res.status = "sat"
	case first == "unknown":
		res.status = "unknown"
	case first == "timeout" || ctx.Err() != nil || strings.Contains(text, "timeout") || strings.Contains(text, "interrupted"):
		res.status = "timeout"
	default:
		res.status = "error"
	}
	return res
}

func (e *Engine) preludeFor(uses map[string]bool) string {
	var sb strings.Builder
	b, err := os.ReadFile(filepath.Join(e.verif, "spec", "prelude.smt2"))
	if err != nil {
		panic(err)
	}
	sb.WriteString("(set-option :produce-models true)\n(set-logic ALL)\n")
	sb.Write(b)
	// dependency closure in deterministic order
	seen := map[string]bool{}
	var order []string
	var visit func(n string)
	visit = func(n string) {
		if seen[n] {
			return
		}
		seen[n] = true
		for _, d := range e.specDeps[n] {
			visit(d)
		}
		order = append(order, n)
	}
	var names []string
	for n := range uses {
		names = append(names, n)
	}
	sort.Strings(names)
	for _, n := range names {
		visit(n)
	}
	for _, n := range order {
		txt, ok := e.specFiles[n]
		if !ok {
			panic(fmt.Sprintf("unknown spec file %q", n))
		}
		sb.WriteString("; ---- spec " + n + " ----\n")
		sb.WriteString(txt)
		sb.WriteString("\n")
	}
	return sb.String()
}

type query struct {
	name     string
	text     string
	expect   string // "unsat" for obligations, "sat" for covers
	ob       *Obligation
	cv       *Cover
	lemma    string
	inputs   []string
	result   solveResult
	disagree string
	quick    bool // listed as a known finding: one short attempt (it is expected not to prove)
}

func safeFile(name string) string {
	r := strings.NewReplacer("/", "_", " ", "_", "(", "", ")", "", "*", "", "#", "-", "[", ".", "]", "", "~", "_", "<", "", ">", "", "|", "", ":", "_", ",", "_")
	s := r.Replace(name)
	if len(s) > 180 {
		s = s[:180]
	}
	return s
}

// solveAll runs all queries with a worker pool. For each query: z3-new first; if it does not
// decide, z3 and cvc5 are tried. A query whose solvers contradict each other is flagged.
func solveAll(qs []*query, dir string, timeoutSec int, workers int, thorough bool) {
	os.MkdirAll(dir, 0o755)
	var wg sync.WaitGroup
	ch := make(chan *query)
	for w := 0; w < workers; w++ {
		wg.Add(1)
		go func() {
			defer wg.Done()
			for qq := range ch {
				file := filepath.Join(dir, safeFile(qq.name)+".smt2")
				if err := os.WriteFile(file, []byte(qq.text+"\n(check-sat)\n"), 0o644); err != nil {
					qq.result = solveResult{status: "error", output: err.Error()}
					continue
				}
				var results []solveResult
				switch {
				case qq.expect == "sat":
					// covers: one quick attempt; only a proof of unsatisfiability matters
					t := 5
					if thorough {
						t = 20
					}
					results = append(results, runSolver(solvers[0], file, t))
				case qq.quick:
					t := timeoutSec
					if t > 10 {
						t = 10
					}
					results = append(results, runSolver(solvers[0], file, t))
				case thorough:
					for _, s := range solvers {
						results = append(results, runSolver(s, file, timeoutSec))
					}
				default:
					// stage 1: the default configuration, briefly; stage 2: every configuration at once
					t1 := 6
					if timeoutSec < t1 {
						t1 = timeoutSec
					}
					r := runSolver(solvers[0], file, t1)
					results = append(results, r)
					if r.status != "unsat" && r.status != "sat" {
						results = append(results, raceSolvers(file, timeoutSec)...)
					}
				}
				// pick
				var pick *solveResult
				total := 0.0
				for i := range results {
					total += results[i].seconds
					if results[i].status == "unsat" || results[i].status == "sat" {
						if pick == nil {
							pick = &results[i]
						} else if pick.status != results[i].status {
							qq.disagree = fmt.Sprintf("%s says %s but %s says %s", pick.solver, pick.status, results[i].solver, results[i].status)
						}
					}
				}
				if pick == nil {
					pick = &results[len(results)-1]
					for i := range results {
						if results[i].status == "unknown" {
							pick = &results[i]
							break
						}
					}
				}
				qq.result = *pick
				qq.result.seconds = total
				// model for failing obligations
				if qq.expect == "unsat" && (qq.result.status == "sat" || qq.result.status == "unknown") && len(qq.inputs) > 0 {
					mfile := filepath.Join(dir, safeFile(qq.name)+".model.smt2")
					txt := qq.text + "\n(check-sat)\n(get-value (" + strings.Join(qq.inputs, " ") + "))\n"
					os.WriteFile(mfile, []byte(txt), 0o644)
					for _, s := range solvers {
						if s.name == qq.result.solver {
							r := runSolver(s, mfile, timeoutSec)
							qq.result.output = r.output
						}
					}
				}
				if os.Getenv("VERIF_KEEP_ALL") == "" && (qq.result.status == qq.expect || (qq.expect == "sat" && qq.result.status == "unknown")) {
					os.Remove(file)
				}
			}
		}()
	}
	for _, qq := range qs {
		ch <- qq
	}
	close(ch)
	wg.Wait()
	// Second chance for obligations that were not decided: on a loaded machine a query that needs two seconds of
	// solver time can run into the wall-clock limit. The few that are left are run again, a few at a time, with three
	// times the limit, the default configuration first. (A verdict is still only ever `unsat` from a solver.)
	var again []*query
	for _, qq := range qs {
		if qq.expect == "unsat" && !qq.quick && qq.result.status != "unsat" && qq.result.status != "sat" {
			again = append(again, qq)
		}
	}
	if len(again) == 0 || len(again) > 12 || thorough {
		return
	}
	sem := make(chan struct{}, 3)
	var wg2 sync.WaitGroup
	for _, qq := range again {
		wg2.Add(1)
		go func(qq *query) {
			defer wg2.Done()
			sem <- struct{}{}
			defer func() { <-sem }()
			file := filepath.Join(dir, safeFile(qq.name)+".smt2")
			if _, err := os.Stat(file); err != nil {
				return
			}
			r := runSolver(solvers[0], file, 3*timeoutSec)
			if r.status != "unsat" && r.status != "sat" {
				for _, rr := range raceSolvers(file, 3*timeoutSec) {
					if rr.status == "unsat" || rr.status == "sat" {
						r = rr
						break
					}
				}
			}
			if r.status == "unsat" {
				r.seconds += qq.result.seconds
				qq.result = r
				if os.Getenv("VERIF_KEEP_ALL") == "" {
					os.Remove(file)
				}
			}
		}(qq)
	}
	wg2.Wait()
}
