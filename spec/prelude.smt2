; rcvc prelude: sorts and functions shared by every query.
(declare-sort Str 0)
(declare-fun s_len (Str) Int)
(declare-fun s_at (Str Int) (_ BitVec 8))
(assert (forall ((s Str)) (! (>= (s_len s) 0) :pattern ((s_len s)))))
(declare-fun s_sub (Str Int Int) Str)
(assert (forall ((s Str) (a Int) (b Int)) (! (=> (and (<= 0 a) (<= a b) (<= b (s_len s))) (= (s_len (s_sub s a b)) (- b a))) :pattern ((s_sub s a b)))))
(assert (forall ((s Str) (a Int) (b Int) (i Int)) (! (=> (and (<= 0 a) (<= a b) (<= b (s_len s)) (<= 0 i) (< i (- b a))) (= (s_at (s_sub s a b) i) (s_at s (+ a i)))) :pattern ((s_at (s_sub s a b) i)))))
(declare-fun s_cat (Str Str) Str)
(assert (forall ((a Str) (b Str)) (! (= (s_len (s_cat a b)) (+ (s_len a) (s_len b))) :pattern ((s_cat a b)))))
(assert (forall ((a Str) (b Str) (i Int)) (! (=> (and (<= 0 i) (< i (+ (s_len a) (s_len b)))) (= (s_at (s_cat a b) i) (ite (< i (s_len a)) (s_at a i) (s_at b (- i (s_len a)))))) :pattern ((s_at (s_cat a b) i)))))
; strings are values: concatenation with an empty string is the other operand
(assert (forall ((a Str) (b Str)) (! (and (=> (= (s_len a) 0) (= (s_cat a b) b)) (=> (= (s_len b) 0) (= (s_cat a b) a))) :pattern ((s_cat a b)))))
(declare-datatypes ((Slice 0)) (((mk-slice (sl.base Int) (sl.off Int) (sl.len Int) (sl.cap Int)))))
(define-fun slice_wf ((s Slice)) Bool (and (<= 0 (sl.off s)) (<= 0 (sl.len s)) (<= (sl.len s) (sl.cap s)) (<= 0 (sl.base s)) (=> (= (sl.base s) 0) (and (= (sl.off s) 0) (= (sl.cap s) 0)))))
(declare-fun refkind (Int) Int)
(declare-fun rootof (Int) Int)
(declare-fun dyntype (Int) Int)
(define-fun go_div ((a Int) (b Int)) Int (ite (>= a 0) (ite (> b 0) (div a b) (- (div a (- b)))) (ite (> b 0) (- (div (- a) b)) (div (- a) (- b)))))
; Go's % for a symbolic divisor, specified only by valid facts that need no non-linear reasoning
; (a constant divisor is translated to SMT mod directly by the generator).
(declare-fun go_mod (Int Int) Int)
(assert (forall ((a Int) (b Int)) (! (and
   (=> (and (> b 0) (<= 0 a)) (and (<= 0 (go_mod a b)) (< (go_mod a b) b)))
   (=> (and (> b 0) (<= 0 a) (< a b)) (= (go_mod a b) a))
   (=> (and (> b 0) (<= b a) (< a (* 2 b))) (= (go_mod a b) (- a b))))
  :pattern ((go_mod a b)))))
(define-fun imin ((a Int) (b Int)) Int (ite (<= a b) a b))
(define-fun imax ((a Int) (b Int)) Int (ite (>= a b) a b))
; ByteArr: the contents of one backing array. Spec functions over byte windows take the backing array of
; the slice they talk about (not the whole memory), so writes to other arrays leave them unchanged.
(define-sort ByteArr () (Array Int (_ BitVec 8)))
; el8 a s k : k-th byte of slice s whose backing array has contents a (a named accessor so that quantified
; facts about slice contents have a trigger that does not mention the slice offset)
(declare-fun el8 (ByteArr Slice Int) (_ BitVec 8))
(assert (forall ((m ByteArr) (s Slice) (k Int)) (! (= (el8 m s k) (select m (+ (sl.off s) k))) :pattern ((el8 m s k)))))
; the same accessor for string slices (declared here, not on demand, so that spec files can name it in patterns)
(declare-fun elem!Str ((Array Int Str) Slice Int) Str)
(assert (forall ((m (Array Int Str)) (s Slice) (k Int)) (! (= (elem!Str m s k) (select m (+ (sl.off s) k))) :pattern ((elem!Str m s k)))))
; s_of a off len : the string holding the bytes a[off .. off+len) of one backing array
(declare-fun s_of ((Array Int (_ BitVec 8)) Int Int) Str)
(assert (forall ((m (Array Int (_ BitVec 8))) (o Int) (n Int)) (! (=> (>= n 0) (= (s_len (s_of m o n)) n)) :pattern ((s_of m o n)))))
(assert (forall ((m (Array Int (_ BitVec 8))) (o Int) (n Int) (i Int)) (! (=> (and (<= 0 i) (< i n)) (= (s_at (s_of m o n) i) (select m (+ o i)))) :pattern ((s_at (s_of m o n) i)))))
(define-fun alloc_hint_max () Int 65536)
