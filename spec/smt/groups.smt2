; needs slot
; Per-slot grouping of a key list (a []string window k over backing array a):
; kcnt(k, n, s) = number of positions p < n whose key hashes to slot s. A grouping is the exact, order-preserving
; partition of the list iff the p-th key sits at index kcnt(k, p, slot(p)) of its slot's group and every
; group s has length kcnt(k, n, s).
; sig kcnt$ : (Array Int Str) Slice Int Int -> Int
; sig kcnt_unfold$ : (Array Int Str) Slice Int Int -> Bool
; sig kcnt_mono$ : (Array Int Str) Slice Int Int Int -> Bool
; sig kat$ : (Array Int Str) Slice Int -> Str
(declare-fun kcnt$ ((Array Int Str) Slice Int Int) Int)
(define-fun kat$ ((a (Array Int Str)) (k Slice) (p Int)) Str (select a (+ (sl.off k) p)))
(assert (forall ((a (Array Int Str)) (k Slice) (s Int)) (! (= (kcnt$ a k 0 s) 0) :pattern ((kcnt$ a k 0 s)))))
; definition, unfolded on request; with the bounds proved by lemma kcnt_bounds
(declare-fun kcnt_unfold$ ((Array Int Str) Slice Int Int) Bool)
(assert (forall ((a (Array Int Str)) (k Slice) (n Int) (s Int))
  (! (and (kcnt_unfold$ a k n s)
          (=> (> n 0) (= (kcnt$ a k n s) (+ (kcnt$ a k (- n 1) s) (ite (= (keyslot (select a (+ (sl.off k) (- n 1)))) s) 1 0))))
          (=> (>= n 0) (and (<= 0 (kcnt$ a k n s)) (<= (kcnt$ a k n s) n))))
     :pattern ((kcnt_unfold$ a k n s)))))
; monotone in n (lemma kcnt_mono), on request
(declare-fun kcnt_mono$ ((Array Int Str) Slice Int Int Int) Bool)
(assert (forall ((a (Array Int Str)) (k Slice) (p Int) (q Int) (s Int))
  (! (and (kcnt_mono$ a k p q s) (=> (and (<= 0 p) (<= p q)) (<= (kcnt$ a k p s) (kcnt$ a k q s))))
     :pattern ((kcnt_mono$ a k p q s)))))
; locality (lemma kcnt_local): two windows holding the same first n strings have the same counts
(assert (forall ((a (Array Int Str)) (k Slice) (b (Array Int Str)) (l Slice) (n Int) (s Int))
  (! (=> (and (>= n 0) (forall ((p Int)) (! (=> (and (<= 0 p) (< p n)) (= (select a (+ (sl.off k) p)) (select b (+ (sl.off l) p)))) :pattern ((select b (+ (sl.off l) p))))))
         (= (kcnt$ a k n s) (kcnt$ b l n s)))
     :pattern ((kcnt$ a k n s) (kcnt$ b l n s)))))
