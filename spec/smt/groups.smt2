; needs slot strs
; Per-slot grouping of a key list (a []string window k over backing array a):
; kcnt(k, n, s) = number of positions p < n whose key hashes to slot s. A grouping is the exact, order-preserving
; partition of the list iff the p-th key sits at index kcnt(k, p, slot(p)) of its slot's group and every
; group s has length kcnt(k, n, s).
; sig kcnt$ : (Array Int Str) Slice Int Int -> Int
; sig kcnt_unfold$ : (Array Int Str) Slice Int Int -> Bool
; sig kcnt_mono$ : (Array Int Str) Slice Int Int Int -> Bool
; sig kat$ : (Array Int Str) Slice Int -> Str
(declare-fun kcnt$ ((Array Int Str) Slice Int Int) Int)
(define-fun kat$ ((a (Array Int Str)) (k Slice) (p Int)) Str (select a (+ (sl.off k) p)))
(assert (forall ((a (Array Int Str)) (k Slice) (s Int)) (! (= (kcnt$ a k 0 s) 0) :pattern ((kcnt$ a k 0 s)))))
; definition, unfolded on request; with the bounds proved by lemma kcnt_bounds
(declare-fun kcnt_unfold$ ((Array Int Str) Slice Int Int) Bool)
(assert (forall ((a (Array Int Str)) (k Slice) (n Int) (s Int))
  (! (and (kcnt_unfold$ a k n s)
          (=> (> n 0) (= (kcnt$ a k n s) (+ (kcnt$ a k (- n 1) s) (ite (= (keyslot (select a (+ (sl.off k) (- n 1)))) s) 1 0))))
          (=> (>= n 0) (and (<= 0 (kcnt$ a k n s)) (<= (kcnt$ a k n s) n))))
     :pattern ((kcnt_unfold$ a k n s)))))
; monotone in n (lemma kcnt_mono), on request
(declare-fun kcnt_mono$ ((Array Int Str) Slice Int Int Int) Bool)
(assert (forall ((a (Array Int Str)) (k Slice) (p Int) (q Int) (s Int))
  (! (and (kcnt_mono$ a k p q s) (=> (and (<= 0 p) (<= p q)) (<= (kcnt$ a k p s) (kcnt$ a k q s))))
     :pattern ((kcnt_mono$ a k p q s)))))
; locality (lemma kcnt_local): two windows holding the same first n strings have the same counts
(assert (forall ((a (Array Int Str)) (k Slice) (b (Array Int Str)) (l Slice) (n Int) (s Int))
  (! (=> (and (>= n 0) (forall ((p Int)) (! (=> (and (<= 0 p) (< p n)) (= (select a (+ (sl.off k) p)) (select b (+ (sl.off l) p)))) :pattern ((select b (+ (sl.off l) p))))))
         (= (kcnt$ a k n s) (kcnt$ b l n s)))
     :pattern ((kcnt$ a k n s) (kcnt$ b l n s)))))

; ---- canonical RESP encoding of a key list: "$<len>\r\n<key>\r\n" per key, concatenated in list order ----
; sig bulkstr : Str -> Str
; sig kenc$ : (Array Int Str) Slice Int -> Str
; sig kenc_unfold$ : (Array Int Str) Slice Int -> Bool
(declare-const lit_dollar Str)
(assert (and (= (s_len lit_dollar) 1) (= (s_at lit_dollar 0) #x24)))
(declare-const lit_crlf Str)
(assert (and (= (s_len lit_crlf) 2) (= (s_at lit_crlf 0) #x0d) (= (s_at lit_crlf 1) #x0a)))
(define-fun bulkstr ((k Str)) Str (s_cat lit_dollar (s_cat (itoa (s_len k)) (s_cat lit_crlf (s_cat k lit_crlf)))))
(declare-fun kenc$ ((Array Int Str) Slice Int) Str)
(assert (forall ((a (Array Int Str)) (k Slice)) (! (= (s_len (kenc$ a k 0)) 0) :pattern ((kenc$ a k 0)))))
(declare-fun kenc_unfold$ ((Array Int Str) Slice Int) Bool)
(assert (forall ((a (Array Int Str)) (k Slice) (j Int))
  (! (and (kenc_unfold$ a k j)
          (=> (> j 0) (= (kenc$ a k j) (s_cat (kenc$ a k (- j 1)) (bulkstr (select a (+ (sl.off k) (- j 1))))))))
     :pattern ((kenc_unfold$ a k j)))))

; ---- the same for a list of key/value pairs ([][2]string): "$..key..$..value.." per pair ----
; sig penc$ : (Array Int (Array Int Str)) Slice Int -> Str
; sig penc_unfold$ : (Array Int (Array Int Str)) Slice Int -> Bool
(declare-fun penc$ ((Array Int (Array Int Str)) Slice Int) Str)
(assert (forall ((a (Array Int (Array Int Str))) (k Slice)) (! (= (s_len (penc$ a k 0)) 0) :pattern ((penc$ a k 0)))))
(declare-fun penc_unfold$ ((Array Int (Array Int Str)) Slice Int) Bool)
(assert (forall ((a (Array Int (Array Int Str))) (k Slice) (j Int))
  (! (and (penc_unfold$ a k j)
          (=> (> j 0) (= (penc$ a k j) (s_cat (penc$ a k (- j 1))
                 (s_cat (bulkstr (select (select a (+ (sl.off k) (- j 1))) 0)) (bulkstr (select (select a (+ (sl.off k) (- j 1))) 1)))))))
     :pattern ((penc_unfold$ a k j)))))
