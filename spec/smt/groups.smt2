; needs slot strs
; Per-slot grouping of a key list (a []string window k over backing array a):
; kcnt(k, n, s) = number of positions p < n whose key hashes to slot s. A grouping is the exact, order-preserving
; partition of the list iff the p-th key sits at index kcnt(k, p, slot(p)) of its slot's group and every
; group s has length kcnt(k, n, s).
; sig kcnt$ : (Array Int Str) Slice Int Int -> Int
; sig kcnt_unfold$ : (Array Int Str) Slice Int Int -> Bool
; sig kcnt_mono$ : (Array Int Str) Slice Int Int Int -> Bool
; sig kat$ : (Array Int Str) Slice Int -> Str
(declare-fun kcnt$ ((Array Int Str) Slice Int Int) Int)
(define-fun kat$ ((a (Array Int Str)) (k Slice) (p Int)) Str (select a (+ (sl.off k) p)))
(assert (forall ((a (Array Int Str)) (k Slice) (s Int)) (! (= (kcnt$ a k 0 s) 0) :pattern ((kcnt$ a k 0 s)))))
; definition, unfolded on request; with the bounds proved by lemma kcnt_bounds
(declare-fun kcnt_unfold$ ((Array Int Str) Slice Int Int) Bool)
(assert (forall ((a (Array Int Str)) (k Slice) (n Int) (s Int))
  (! (and (kcnt_unfold$ a k n s)
          (=> (> n 0) (= (kcnt$ a k n s) (+ (kcnt$ a k (- n 1) s) (ite (= (keyslot (select a (+ (sl.off k) (- n 1)))) s) 1 0))))
          (=> (>= n 0) (and (<= 0 (kcnt$ a k n s)) (<= (kcnt$ a k n s) n))))
     :pattern ((kcnt_unfold$ a k n s)))))
; monotone in n (lemma kcnt_mono), on request
(declare-fun kcnt_mono$ ((Array Int Str) Slice Int Int Int) Bool)
(assert (forall ((a (Array Int Str)) (k Slice) (p Int) (q Int) (s Int))
  (! (and (kcnt_mono$ a k p q s) (=> (and (<= 0 p) (<= p q)) (<= (kcnt$ a k p s) (kcnt$ a k q s))))
     :pattern ((kcnt_mono$ a k p q s)))))
; locality (lemma kcnt_local): two windows holding the same first n strings have the same counts
(assert (forall ((a (Array Int Str)) (k Slice) (b (Array Int Str)) (l Slice) (n Int) (s Int))
  (! (=> (and (>= n 0) (forall ((p Int)) (! (=> (and (<= 0 p) (< p n)) (= (select a (+ (sl.off k) p)) (select b (+ (sl.off l) p)))) :pattern ((select b (+ (sl.off l) p))))))
         (= (kcnt$ a k n s) (kcnt$ b l n s)))
     :pattern ((kcnt$ a k n s) (kcnt$ b l n s)))))

; ---- canonical RESP encoding of a key list, associated the way the encoders build it (piece after piece) ----
; benc p k d c : p followed by d, the decimal length of k, c, k, c   (d = "$", c = "\r\n" at the call sites)
; lenc(keys, j, hdr, d, c)  : hdr followed by the encodings of the first j keys
; lenc2(pairs, j, hdr, d, c): hdr followed by key and value encodings of the first j pairs
; sig benc : Str Str Str Str -> Str
; sig lenc$ : (Array Int Str) Slice Int Str Str Str -> Str
; sig lenc_unfold$ : (Array Int Str) Slice Int Str Str Str -> Bool
; sig lenc2$ : (Array Int (Array Int Str)) Slice Int Str Str Str -> Str
; sig lenc2_unfold$ : (Array Int (Array Int Str)) Slice Int Str Str Str -> Bool
(define-fun benc ((p Str) (k Str) (d Str) (c Str)) Str (s_cat (s_cat (s_cat (s_cat (s_cat p d) (itoa (s_len k))) c) k) c))
(declare-fun lenc$ ((Array Int Str) Slice Int Str Str Str) Str)
(assert (forall ((a (Array Int Str)) (k Slice) (h Str) (d Str) (c Str)) (! (= (lenc$ a k 0 h d c) h) :pattern ((lenc$ a k 0 h d c)))))
(declare-fun lenc_unfold$ ((Array Int Str) Slice Int Str Str Str) Bool)
(assert (forall ((a (Array Int Str)) (k Slice) (j Int) (h Str) (d Str) (c Str))
  (! (and (lenc_unfold$ a k j h d c)
          (=> (> j 0) (= (lenc$ a k j h d c) (benc (lenc$ a k (- j 1) h d c) (select a (+ (sl.off k) (- j 1))) d c))))
     :pattern ((lenc_unfold$ a k j h d c)))))
(declare-fun lenc2$ ((Array Int (Array Int Str)) Slice Int Str Str Str) Str)
(assert (forall ((a (Array Int (Array Int Str))) (k Slice) (h Str) (d Str) (c Str)) (! (= (lenc2$ a k 0 h d c) h) :pattern ((lenc2$ a k 0 h d c)))))
(declare-fun lenc2_unfold$ ((Array Int (Array Int Str)) Slice Int Str Str Str) Bool)
(assert (forall ((a (Array Int (Array Int Str))) (k Slice) (j Int) (h Str) (d Str) (c Str))
  (! (and (lenc2_unfold$ a k j h d c)
          (=> (> j 0) (= (lenc2$ a k j h d c)
                 (benc (benc (lenc2$ a k (- j 1) h d c) (select (select a (+ (sl.off k) (- j 1))) 0) d c) (select (select a (+ (sl.off k) (- j 1))) 1) d c))))
     :pattern ((lenc2_unfold$ a k j h d c)))))
; ---- merge of per-group replies back into request order (C07) ----
; kfirst(g, k) : the least index of g holding the string k, or -1 when g does not hold it
; (a definition by description: the least such index exists and is unique, so the axiom is satisfiable)
; sig kfirst$ : (Array Int Str) Slice Str -> Int
(declare-fun kfirst$ ((Array Int Str) Slice Str) Int)
(assert (forall ((a (Array Int Str)) (g Slice) (k Str))
  (! (or (and (= (kfirst$ a g k) (- 1))
              (forall ((j Int)) (! (=> (and (<= 0 j) (< j (sl.len g))) (not (= (elem!Str a g j) k))) :pattern ((elem!Str a g j)))))
         (and (<= 0 (kfirst$ a g k)) (< (kfirst$ a g k) (sl.len g))
              (= (elem!Str a g (kfirst$ a g k)) k)
              (forall ((j Int)) (! (=> (and (<= 0 j) (< j (kfirst$ a g k))) (not (= (elem!Str a g j) k))) :pattern ((elem!Str a g j))))))
     :pattern ((kfirst$ a g k)))))
; lcat(e, j, hdr) : hdr followed by e[0], ..., e[j-1], associated the way the merge loop appends them
; sig lcat : (Array Int Str) Int Str -> Str
; sig lcat_unfold : (Array Int Str) Int Str -> Bool
(declare-fun lcat ((Array Int Str) Int Str) Str)
(assert (forall ((e (Array Int Str)) (h Str)) (! (= (lcat e 0 h) h) :pattern ((lcat e 0 h)))))
(declare-fun lcat_unfold ((Array Int Str) Int Str) Bool)
(assert (forall ((e (Array Int Str)) (j Int) (h Str))
  (! (and (lcat_unfold e j h)
          (=> (> j 0) (= (lcat e j h) (s_cat (lcat e (- j 1) h) (select e (- j 1))))))
     :pattern ((lcat_unfold e j h)))))
