; needs resp
; RESP2 reply values inside a byte window: extent of one value starting at pos.
; A "line" value (+ - :) ends at its CRLF; a bulk is "$<len>\r\n<payload>\r\n" or "$-1\r\n"; an array is
; "*<n>\r\n" followed by n values, or "*-1\r\n".
; sig line_ok$ : ByteArr Slice Int -> Bool
; sig line_end$ : ByteArr Slice Int -> Int
; sig hdr_slice$ : ByteArr Slice Int -> Slice
; sig value_ok$ : ByteArr Slice Int -> Bool
; sig value_end$ : ByteArr Slice Int -> Int
; sig elems_ok$ : ByteArr Slice Int Int -> Bool
; sig elems_end$ : ByteArr Slice Int Int -> Int
; sig value_unfold$ : ByteArr Slice Int -> Bool
; sig elems_unfold$ : ByteArr Slice Int Int -> Bool
; sig elems_snoc$ : ByteArr Slice Int Int -> Bool
; a CRLF-terminated line of at least one byte starts at pos
(define-fun line_ok$ ((m ByteArr) (s Slice) (pos Int)) Bool
  (and (<= 0 pos) (>= (- (sl.len s) pos) 1) (>= (lfpos$ m s pos) 2) (= (el8 m s (- (+ pos (lfpos$ m s pos)) 1)) #x0d)))
(define-fun line_end$ ((m ByteArr) (s Slice) (pos Int)) Int (+ pos (lfpos$ m s pos) 1))
; the text after the type byte, without CRLF
(define-fun hdr_slice$ ((m ByteArr) (s Slice) (pos Int)) Slice (subsl s (+ pos 1) (- (+ pos (lfpos$ m s pos)) 1)))
(declare-fun value_ok$ (ByteArr Slice Int) Bool)
(declare-fun value_end$ (ByteArr Slice Int) Int)
(declare-fun elems_ok$ (ByteArr Slice Int Int) Bool)
(declare-fun elems_end$ (ByteArr Slice Int Int) Int)
(declare-fun value_unfold$ (ByteArr Slice Int) Bool)
(assert (forall ((m ByteArr) (s Slice) (pos Int))
  (! (and (value_unfold$ m s pos)
      (let ((t (el8 m s pos)) (h (hdr_slice$ m s pos)) (le (line_end$ m s pos)))
       (and
        ; status, error, integer lines
        (=> (or (= t #x2b) (= t #x2d) (= t #x3a))
            (and (= (value_ok$ m s pos) (line_ok$ m s pos)) (= (value_end$ m s pos) le)))
        ; bulk
        (=> (= t #x24)
            (and (= (value_ok$ m s pos)
                    (and (line_ok$ m s pos)
                         (or (isminus1$ m h)
                             (and (canon$ m h)
                                  (<= (+ le (dec$ m h (sl.len h)) 2) (sl.len s))
                                  (= (el8 m s (+ le (dec$ m h (sl.len h)))) #x0d)
                                  (= (el8 m s (+ le (dec$ m h (sl.len h)) 1)) #x0a)))))
                 (= (value_end$ m s pos) (ite (isminus1$ m h) le (+ le (dec$ m h (sl.len h)) 2)))))
        ; array
        (=> (= t #x2a)
            (and (= (value_ok$ m s pos)
                    (and (line_ok$ m s pos)
                         (or (isminus1$ m h)
                             (and (canon$ m h) (elems_ok$ m s (dec$ m h (sl.len h)) le)))))
                 (= (value_end$ m s pos) (ite (isminus1$ m h) le (elems_end$ m s (dec$ m h (sl.len h)) le)))))
        ; anything else is not a value
        (=> (not (or (= t #x2b) (= t #x2d) (= t #x3a) (= t #x24) (= t #x2a))) (not (value_ok$ m s pos))))))
     :pattern ((value_unfold$ m s pos)))))
(declare-fun elems_unfold$ (ByteArr Slice Int Int) Bool)
(assert (forall ((m ByteArr) (s Slice) (k Int) (pos Int))
  (! (and (elems_unfold$ m s k pos)
          (=> (<= k 0) (and (elems_ok$ m s k pos) (= (elems_end$ m s k pos) pos)))
          (=> (> k 0) (and (= (elems_ok$ m s k pos) (and (value_ok$ m s pos) (elems_ok$ m s (- k 1) (value_end$ m s pos))))
                           (= (elems_end$ m s k pos) (elems_end$ m s (- k 1) (value_end$ m s pos))))))
     :pattern ((elems_unfold$ m s k pos)))))
; k+1 values = k values followed by one more (the schematic induction of lemma args_snoc)
(declare-fun elems_snoc$ (ByteArr Slice Int Int) Bool)
(assert (forall ((m ByteArr) (s Slice) (k Int) (pos Int))
  (! (and (elems_snoc$ m s k pos)
          (=> (>= k 0) (and (= (elems_ok$ m s (+ k 1) pos) (and (elems_ok$ m s k pos) (value_ok$ m s (elems_end$ m s k pos))))
                            (= (elems_end$ m s (+ k 1) pos) (value_end$ m s (elems_end$ m s k pos))))))
     :pattern ((elems_snoc$ m s k pos)))))
