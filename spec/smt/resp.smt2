; needs bytes
; Decimal lengths as accepted by Redis (string2ll): no sign, no leading zero unless "0", and here at most
; 18 digits so that the value fits a 64-bit integer.
; sig dec$ : ByteArr Slice Int -> Int
; sig alldigits$ : ByteArr Slice Int -> Bool
; sig pow10 : Int -> Int
; sig isminus1$ : ByteArr Slice -> Bool
; sig canon$ : ByteArr Slice -> Bool
(declare-fun dec$ (ByteArr Slice Int) Int)
(declare-fun alldigits$ (ByteArr Slice Int) Bool)
(declare-fun pow10 (Int) Int)
; decimal value and digit test depend only on the digits' own bytes (proved by induction in lemma dec_local)
(assert (forall ((a ByteArr) (b ByteArr) (s Slice) (k Int))
  (! (=> (and (<= 0 k) (agree8 a b s 0 k)) (= (dec$ b s k) (dec$ a s k))) :pattern ((dec$ a s k) (dec$ b s k)))))
(assert (forall ((a ByteArr) (b ByteArr) (s Slice) (k Int))
  (! (=> (and (<= 0 k) (agree8 a b s 0 k)) (= (alldigits$ b s k) (alldigits$ a s k))) :pattern ((alldigits$ a s k) (alldigits$ b s k)))))
(define-fun isminus1$ ((m ByteArr) (s Slice)) Bool (and (= (sl.len s) 2) (= (el8 m s 0) #x2d) (= (el8 m s 1) #x31)))
(define-fun canon$ ((m ByteArr) (s Slice)) Bool
  (and (>= (sl.len s) 1) (<= (sl.len s) 18) (alldigits$ m s (sl.len s)) (isdigit (el8 m s 0)) (=> (> (sl.len s) 1) (not (= (el8 m s 0) #x30)))))

; ---- request framing: bulk strings and argument lists inside a byte window ----
; sig subsl : Slice Int Int -> Slice
; sig lfpos$ : ByteArr Slice Int -> Int
; sig bulk_ok$ : ByteArr Slice Int -> Bool
; sig bulk_next$ : ByteArr Slice Int -> Int
; sig bulk_data$ : ByteArr Slice Int -> Slice
; sig args_ok$ : ByteArr Slice Int Int -> Bool
; sig args_end$ : ByteArr Slice Int Int -> Int
(define-fun subsl ((s Slice) (a Int) (b Int)) Slice (mk-slice (sl.base s) (+ (sl.off s) a) (- b a) (- (sl.cap s) a)))
; index of the first LF at or after pos, relative to pos (or -1)
(define-fun lfpos$ ((m ByteArr) (s Slice) (pos Int)) Int (bidx$ m (subsl s pos (sl.len s)) #x0a))
(define-fun bulk_hdr$ ((m ByteArr) (s Slice) (pos Int)) Slice (subsl s (+ pos 1) (- (+ pos (lfpos$ m s pos)) 1)))
(define-fun bulk_len$ ((m ByteArr) (s Slice) (pos Int)) Int (dec$ m (bulk_hdr$ m s pos) (sl.len (bulk_hdr$ m s pos))))
(define-fun bulk_dp$ ((m ByteArr) (s Slice) (pos Int)) Int (+ pos (lfpos$ m s pos) 1))
; a complete, canonical "$<len>\r\n<payload>\r\n" starts at pos
(define-fun bulk_ok$ ((m ByteArr) (s Slice) (pos Int)) Bool
  (and (<= 0 pos) (>= (- (sl.len s) pos) 1)
       (>= (lfpos$ m s pos) 2)
       (= (el8 m s (- (+ pos (lfpos$ m s pos)) 1)) #x0d)
       (= (el8 m s pos) #x24)
       (canon$ m (bulk_hdr$ m s pos))
       (<= (+ (bulk_dp$ m s pos) (bulk_len$ m s pos) 2) (sl.len s))
       (= (el8 m s (+ (bulk_dp$ m s pos) (bulk_len$ m s pos))) #x0d)
       (= (el8 m s (+ (bulk_dp$ m s pos) (bulk_len$ m s pos) 1)) #x0a)))
(define-fun bulk_next$ ((m ByteArr) (s Slice) (pos Int)) Int (+ (bulk_dp$ m s pos) (bulk_len$ m s pos) 2))
(define-fun bulk_data$ ((m ByteArr) (s Slice) (pos Int)) Slice (subsl s (bulk_dp$ m s pos) (+ (bulk_dp$ m s pos) (bulk_len$ m s pos))))
; k consecutive bulks starting at pos
(declare-fun args_ok$ (ByteArr Slice Int Int) Bool)
(declare-fun args_end$ (ByteArr Slice Int Int) Int)
; one unfolding per explicit request: contracts write args_unfold(s, k, pos) where they need it
; sig args_unfold$ : ByteArr Slice Int Int -> Bool
(declare-fun args_unfold$ (ByteArr Slice Int Int) Bool)
(assert (forall ((m ByteArr) (s Slice) (k Int) (pos Int))
  (! (and (args_unfold$ m s k pos)
          (=> (<= k 0) (and (args_ok$ m s k pos) (= (args_end$ m s k pos) pos)))
          (=> (> k 0) (and (= (args_ok$ m s k pos) (and (bulk_ok$ m s pos) (args_ok$ m s (- k 1) (bulk_next$ m s pos))))
                           (= (args_end$ m s k pos) (args_end$ m s (- k 1) (bulk_next$ m s pos))))))
     :pattern ((args_unfold$ m s k pos)))))
; appending one bulk at the end (proved by induction in lemma args_snoc); requested explicitly with args_snoc(s, k, pos)
; sig args_snoc$ : ByteArr Slice Int Int -> Bool
(declare-fun args_snoc$ (ByteArr Slice Int Int) Bool)
(assert (forall ((m ByteArr) (s Slice) (k Int) (pos Int))
  (! (and (args_snoc$ m s k pos)
          (=> (>= k 0) (and (= (args_ok$ m s (+ k 1) pos) (and (args_ok$ m s k pos) (bulk_ok$ m s (args_end$ m s k pos))))
                            (= (args_end$ m s (+ k 1) pos) (bulk_next$ m s (args_end$ m s k pos))))))
     :pattern ((args_snoc$ m s k pos)))))
