; needs crcstep slotdef
; sig crc16tab_at : BV32 -> BV32
; sig low16 : BV32 -> BV16
(declare-fun crc16tab_at ((_ BitVec 32)) (_ BitVec 32))
(define-fun low16 ((c (_ BitVec 32))) (_ BitVec 16) ((_ extract 15 0) c))
; table step (proved from the source literal of crc16tab by lemma crc_table_step)
(assert (forall ((c (_ BitVec 32)) (b (_ BitVec 8)))
  (! (= (low16 (bvxor (bvshl c #x00000008) (crc16tab_at (bvand (bvxor (bvlshr c #x00000008) ((_ zero_extend 24) b)) #x000000ff))))
        (crc_step (low16 c) b))
     :pattern ((crc16tab_at (bvand (bvxor (bvlshr c #x00000008) ((_ zero_extend 24) b)) #x000000ff))))))
; crc16 s n : CRC of the first n bytes of s
(assert (forall ((s Str)) (! (= (crc16 s 0) #x0000) :pattern ((crc16 s 0)))))
(assert (forall ((s Str) (n Int)) (! (=> (> n 0) (= (crc16 s n) (crc_step (crc16 s (- n 1)) (s_at s (- n 1))))) :pattern ((crc16 s n)))))
