; needs strs slot
; sig crc16 : Str Int -> BV16
; sig crcslot : Str -> Int
(declare-fun crc16 (Str Int) (_ BitVec 16))
(define-fun crcslot ((s Str)) Int (bv2nat (bvand (crc16 s (s_len s)) #x3fff)))
; Redis Cluster specification: hash only what is between the first '{' and the first '}' after it, if non-empty
(assert (forall ((k Str)) (! (= (keyslot k)
  (let ((s (first_idx k #x7b 0)))
    (ite (< s 0) (crcslot k)
      (let ((e (first_idx k #x7d (+ s 1))))
        (ite (or (< e 0) (= e (+ s 1))) (crcslot k)
             (crcslot (s_sub k (+ s 1) e))))))) :pattern ((keyslot k)))))
