; sig s_cat : Str Str -> Str
; first_idx s c from : least index i >= from with s[i] == c, or -1
; sig first_idx : Str BV8 Int -> Int
(declare-fun first_idx (Str (_ BitVec 8) Int) Int)
(assert (forall ((s Str) (c (_ BitVec 8)) (f Int))
  (! (=> (>= f 0)
      (or (and (= (first_idx s c f) (- 1))
               (forall ((j Int)) (! (=> (and (<= f j) (< j (s_len s))) (not (= (s_at s j) c))) :pattern ((s_at s j)))))
          (and (<= f (first_idx s c f)) (< (first_idx s c f) (s_len s))
               (= (s_at s (first_idx s c f)) c)
               (forall ((j Int)) (! (=> (and (<= f j) (< j (first_idx s c f))) (not (= (s_at s j) c))) :pattern ((s_at s j)))))))
     :pattern ((first_idx s c f)))))
; searching a suffix is searching from an offset (proved by lemma first_idx_suffix)
(assert (forall ((s Str) (c (_ BitVec 8)) (a Int))
  (! (=> (and (<= 0 a) (<= a (s_len s)))
         (= (first_idx (s_sub s a (s_len s)) c 0)
            (ite (= (first_idx s c a) (- 1)) (- 1) (- (first_idx s c a) a))))
     :pattern ((first_idx (s_sub s a (s_len s)) c 0)))))
; has_prefix s p : p is a prefix of s
; sig has_prefix : Str Str -> Bool
(define-fun has_prefix ((s Str) (p Str)) Bool
  (and (<= (s_len p) (s_len s)) (forall ((i Int)) (! (=> (and (<= 0 i) (< i (s_len p))) (= (s_at s i) (s_at p i))) :pattern ((s_at p i))))))
; itoa n : canonical decimal text of n (uninterpreted beyond being non-empty)
; sig itoa : Int -> Str
(declare-fun itoa (Int) Str)
(assert (forall ((n Int)) (! (>= (s_len (itoa n)) 1) :pattern ((itoa n)))))
; substring test (uninterpreted: the standard library is trusted)
; sig str_contains : Str Str -> Bool
(declare-fun str_contains (Str Str) Bool)
; host part of a "host:port" / "[host]:port" address as net.SplitHostPort computes it (uninterpreted)
; sig splitok : Str -> Bool
; sig hostof : Str -> Str
(declare-fun splitok (Str) Bool)
(declare-fun hostof (Str) Str)
; fields of a string split at a separator (strings.Split), and the value of an unsigned decimal/hex/octal literal
; (strconv.ParseUint with base 0), both uninterpreted: contracts only pin which text is split and parsed
; sig nfields : Str Str -> Int
; sig fieldof : Str Str Int -> Str
; sig uintval : Str -> Int
(declare-fun nfields (Str Str) Int)
(declare-fun fieldof (Str Str Int) Str)
(declare-fun uintval (Str) Int)
(assert (forall ((s Str) (sep Str)) (! (>= (nfields s sep) 1) :pattern ((nfields s sep)))))
