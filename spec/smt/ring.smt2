; Abstract view of ring.Buffer: a byte sequence of length rb_buffered whose k-th byte is rb_at.
; sig imin : Int Int -> Int
; sig imax : Int Int -> Int
; sig rb_buffered : Int Int Int Bool -> Int
; sig rb_at$ : ByteArr Slice Int Int Int -> BV8
(define-fun rb_buffered ((size Int) (r Int) (w Int) (e Bool)) Int
  (ite (= r w) (ite e 0 size) (ite (> w r) (- w r) (+ (- size r) w))))
; a named function (unfolded wherever it occurs) so that quantified facts about the k-th byte have a trigger in which k
; appears on its own
(declare-fun rb_at$ (ByteArr Slice Int Int Int) (_ BitVec 8))
(assert (forall ((m ByteArr) (b Slice) (size Int) (r Int) (k Int))
  (! (= (rb_at$ m b size r k) (el8 m b (go_mod (+ r k) size))) :pattern ((rb_at$ m b size r k)))))
