; Abstract view of ring.Buffer: a byte sequence of length rb_buffered whose k-th byte is rb_at.
; sig imin : Int Int -> Int
; sig imax : Int Int -> Int
; sig rb_buffered : Int Int Int Bool -> Int
; sig rb_at$ : ByteArr Slice Int Int Int -> BV8
(define-fun rb_buffered ((size Int) (r Int) (w Int) (e Bool)) Int
  (ite (= r w) (ite e 0 size) (ite (> w r) (- w r) (+ (- size r) w))))
(define-fun rb_at$ ((m ByteArr) (b Slice) (size Int) (r Int) (k Int)) (_ BitVec 8)
  (el8 m b (go_mod (+ r k) size)))
