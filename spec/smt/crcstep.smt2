; CRC16/XMODEM (poly 0x1021, MSB first, init 0, no reflection), one byte step, written bit by bit
; from the CRC definition in the Redis Cluster specification appendix.
; sig crc_step : BV16 BV8 -> BV16
(define-fun crc_bit ((c (_ BitVec 16))) (_ BitVec 16)
  (ite (= ((_ extract 15 15) c) #b1) (bvxor (bvshl c #x0001) #x1021) (bvshl c #x0001)))
(define-fun crc_step ((c (_ BitVec 16)) (b (_ BitVec 8))) (_ BitVec 16)
  (crc_bit (crc_bit (crc_bit (crc_bit (crc_bit (crc_bit (crc_bit (crc_bit (bvxor c (concat b #x00)))))))))))
