; sig rand_choice : Int -> Int
(declare-fun rand_choice (Int) Int)
