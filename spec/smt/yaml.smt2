; What a YAML document says about the two keys of the whitelist file (uninterpreted: the YAML parser is trusted).
; sig yaml_has_enable$ : ByteArr Slice -> Bool
; sig yaml_enable$ : ByteArr Slice -> Bool
; sig yaml_has_list$ : ByteArr Slice -> Bool
; sig yaml_listed$ : ByteArr Slice Str -> Bool
(declare-fun yaml_has_enable$ (ByteArr Slice) Bool)
(declare-fun yaml_enable$ (ByteArr Slice) Bool)
(declare-fun yaml_has_list$ (ByteArr Slice) Bool)
(declare-fun yaml_listed$ (ByteArr Slice Str) Bool)
; the bytes ioutil.ReadFile returns for a file name at the time of the call (uninterpreted)
; sig curfile : Str -> Slice
(declare-fun curfile (Str) Slice)
