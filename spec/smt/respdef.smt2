; needs resp
; Recursive definitions of the decimal-value functions; only parseLen's own verification uses
; them, every other function treats dec/alldigits as opaque.
(assert (forall ((m ByteArr) (s Slice)) (! (= (dec$ m s 0) 0) :pattern ((dec$ m s 0)))))
(assert (forall ((m ByteArr) (s Slice) (k Int)) (! (=> (> k 0) (= (dec$ m s k) (+ (* 10 (dec$ m s (- k 1))) (digitval (el8 m s (- k 1)))))) :pattern ((dec$ m s k)))))
(assert (forall ((m ByteArr) (s Slice)) (! (alldigits$ m s 0) :pattern ((alldigits$ m s 0)))))
(assert (forall ((m ByteArr) (s Slice) (k Int)) (! (=> (> k 0) (= (alldigits$ m s k) (and (alldigits$ m s (- k 1)) (isdigit (el8 m s (- k 1)))))) :pattern ((alldigits$ m s k)))))
(assert (= (pow10 0) 1))
(assert (forall ((k Int)) (! (=> (> k 0) (= (pow10 k) (* 10 (pow10 (- k 1))))) :pattern ((pow10 k)))))
(assert (and (= (pow10 18) 1000000000000000000) (= (pow10 19) 10000000000000000000)))
(assert (forall ((k Int)) (! (=> (and (<= 0 k) (<= k 18)) (and (<= 1 (pow10 k)) (<= (pow10 k) 1000000000000000000))) :pattern ((pow10 k)))))
