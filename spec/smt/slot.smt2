; Key-slot function of the Redis Cluster specification, opaque here (its definition is in slotdef.smt2 and
; is only needed to verify hashkit.Hash itself).
; sig keyslot : Str -> Int
(declare-fun keyslot (Str) Int)
(assert (forall ((k Str)) (! (and (<= 0 (keyslot k)) (< (keyslot k) 16384)) :pattern ((keyslot k)))))
; the empty key hashes to slot 0 (proved from the definition by lemma keyslot_empty)
(declare-const empty_str Str)
(assert (= (s_len empty_str) 0))
(assert (forall ((k Str)) (! (=> (= (s_len k) 0) (= (keyslot k) 0)) :pattern ((keyslot k)))))
