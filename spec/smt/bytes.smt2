; Byte-window spec functions (heap-parameterised: the `$` variants take the byte memory first;
; contracts write them without `$` and the generator passes the memory of the state they are evaluated in).
; sig bidx$ : ByteArr Slice BV8 -> Int
; sig isdigit : BV8 -> Bool
; sig digitval : BV8 -> Int
(declare-fun bidx$ (ByteArr Slice (_ BitVec 8)) Int)
(assert (forall ((m ByteArr) (s Slice) (c (_ BitVec 8)))
  (! (or (and (= (bidx$ m s c) (- 1))
              (forall ((j Int)) (! (=> (and (<= 0 j) (< j (sl.len s))) (not (= (el8 m s j) c))) :pattern ((el8 m s j)))))
         (and (<= 0 (bidx$ m s c)) (< (bidx$ m s c) (sl.len s))
              (= (el8 m s (bidx$ m s c)) c)
              (forall ((j Int)) (! (=> (and (<= 0 j) (< j (bidx$ m s c))) (not (= (el8 m s j) c))) :pattern ((el8 m s j))))))
     :pattern ((bidx$ m s c)))))
(define-fun isdigit ((b (_ BitVec 8))) Bool (and (bvuge b #x30) (bvule b #x39)))
(define-fun digitval ((b (_ BitVec 8))) Int (- (bv2nat b) 48))
; ---- locality: spec functions depend only on the bytes they inspect ----
; agree8 a b s lo hi : the two array contents agree on positions [lo,hi) of slice s
(define-fun agree8 ((a ByteArr) (b ByteArr) (s Slice) (lo Int) (hi Int)) Bool
  (forall ((j Int)) (! (=> (and (<= lo j) (< j hi)) (= (el8 a s j) (el8 b s j))) :pattern ((el8 a s j)) :pattern ((el8 b s j)))))
; the first occurrence of c does not change when only bytes after it change (proved by lemma bidx_local)
(assert (forall ((a ByteArr) (b ByteArr) (s Slice) (c (_ BitVec 8)))
  (! (=> (and (>= (bidx$ a s c) 0) (agree8 a b s 0 (+ (bidx$ a s c) 1))) (= (bidx$ b s c) (bidx$ a s c)))
     :pattern ((bidx$ a s c) (bidx$ b s c)))))
; holds a s t : the byte window s (contents a) spells exactly the string t
; sig holds$ : ByteArr Slice Str -> Bool
(declare-fun holds$ (ByteArr Slice Str) Bool)
(assert (forall ((a ByteArr) (s Slice) (t Str))
  (! (= (holds$ a s t) (and (= (sl.len s) (s_len t))
        (forall ((j Int)) (! (=> (and (<= 0 j) (< j (sl.len s))) (= (el8 a s j) (s_at t j))) :pattern ((el8 a s j)) :pattern ((s_at t j))))))
     :pattern ((holds$ a s t)))))
; it depends only on the bytes of the window (immediate from the definition; stated so that it is found across memory versions)
(assert (forall ((a ByteArr) (b ByteArr) (s Slice) (t Str))
  (! (=> (and (holds$ a s t) (agree8 a b s 0 (sl.len s))) (holds$ b s t))
     :pattern ((holds$ a s t) (holds$ b s t)))))
; vsum(bs, j): total length of the first j slices of a [][]byte (S is the backing memory of bs: position -> slice header)
; sig vsum$ : (Array Int Slice) Slice Int -> Int
; sig vsum_unfold$ : (Array Int Slice) Slice Int -> Bool
(declare-fun vsum$ ((Array Int Slice) Slice Int) Int)
(assert (forall ((a (Array Int Slice)) (s Slice)) (! (= (vsum$ a s 0) 0) :pattern ((vsum$ a s 0)))))
(declare-fun vsum_unfold$ ((Array Int Slice) Slice Int) Bool)
(assert (forall ((a (Array Int Slice)) (s Slice) (j Int))
  (! (and (vsum_unfold$ a s j)
          (=> (> j 0) (= (vsum$ a s j) (+ (vsum$ a s (- j 1)) (sl.len (select a (+ (sl.off s) (- j 1))))))))
     :pattern ((vsum_unfold$ a s j)))))
