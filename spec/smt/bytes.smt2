; Byte-window spec functions (heap-parameterised: the `$` variants take the byte memory first;
; contracts write them without `$` and the generator passes the memory of the state they are evaluated in).
; sig bidx$ : ByteArr Slice BV8 -> Int
; sig isdigit : BV8 -> Bool
; sig digitval : BV8 -> Int
(declare-fun bidx$ (ByteArr Slice (_ BitVec 8)) Int)
(assert (forall ((m ByteArr) (s Slice) (c (_ BitVec 8)))
  (! (or (and (= (bidx$ m s c) (- 1))
              (forall ((j Int)) (! (=> (and (<= 0 j) (< j (sl.len s))) (not (= (el8 m s j) c))) :pattern ((el8 m s j)))))
         (and (<= 0 (bidx$ m s c)) (< (bidx$ m s c) (sl.len s))
              (= (el8 m s (bidx$ m s c)) c)
              (forall ((j Int)) (! (=> (and (<= 0 j) (< j (bidx$ m s c))) (not (= (el8 m s j) c))) :pattern ((el8 m s j))))))
     :pattern ((bidx$ m s c)))))
(define-fun isdigit ((b (_ BitVec 8))) Bool (and (bvuge b #x30) (bvule b #x39)))
(define-fun digitval ((b (_ BitVec 8))) Int (- (bv2nat b) 48))
; ---- locality: spec functions depend only on the bytes they inspect ----
; agree8 a b s lo hi : the two array contents agree on positions [lo,hi) of slice s
(define-fun agree8 ((a ByteArr) (b ByteArr) (s Slice) (lo Int) (hi Int)) Bool
  (forall ((j Int)) (! (=> (and (<= lo j) (< j hi)) (= (el8 a s j) (el8 b s j))) :pattern ((el8 a s j)) :pattern ((el8 b s j)))))
; the first occurrence of c does not change when only bytes after it change (proved by lemma bidx_local)
(assert (forall ((a ByteArr) (b ByteArr) (s Slice) (c (_ BitVec 8)))
  (! (=> (and (>= (bidx$ a s c) 0) (agree8 a b s 0 (+ (bidx$ a s c) 1))) (= (bidx$ b s c) (bidx$ a s c)))
     :pattern ((bidx$ a s c) (bidx$ b s c)))))
