; Intrusive singly-followed queues (MsgQueue / FragQueue): the k-th element from the head following `prev`.
; P is the whole `prev` field map (object reference -> reference).
; sig qnth : (Array Int Int) Int Int -> Int
; sig qnth_unfold : (Array Int Int) Int Int -> Bool
; sig qnth_shift : (Array Int Int) Int Int -> Bool
; sig qnth_local : (Array Int Int) (Array Int Int) Int Int -> Bool
(declare-fun qnth ((Array Int Int) Int Int) Int)
(assert (forall ((p (Array Int Int)) (h Int)) (! (= (qnth p h 0) h) :pattern ((qnth p h 0)))))
; one unfolding on request
(declare-fun qnth_unfold ((Array Int Int) Int Int) Bool)
(assert (forall ((p (Array Int Int)) (h Int) (k Int))
  (! (and (qnth_unfold p h k) (=> (> k 0) (= (qnth p h k) (select p (qnth p h (- k 1))))))
     :pattern ((qnth_unfold p h k)))))
; shifting the head by one (proved by induction: lemma qnth_shift)
(declare-fun qnth_shift ((Array Int Int) Int Int) Bool)
(assert (forall ((p (Array Int Int)) (h Int) (k Int))
  (! (and (qnth_shift p h k) (=> (>= k 0) (= (qnth p (select p h) k) (qnth p h (+ k 1)))))
     :pattern ((qnth_shift p h k)) :pattern ((qnth p (select p h) k)))))
; locality: if p and q agree on the first k elements' links then the k-th elements agree (lemma qnth_local)
(declare-fun qnth_local ((Array Int Int) (Array Int Int) Int Int) Bool)
(assert (forall ((p (Array Int Int)) (q (Array Int Int)) (h Int) (k Int))
  (! (and (qnth_local p q h k)
          (=> (and (>= k 0) (forall ((j Int)) (! (=> (and (<= 0 j) (< j k)) (= (select p (qnth p h j)) (select q (qnth p h j)))) :pattern ((qnth p h j)))))
              (= (qnth q h k) (qnth p h k))))
     :pattern ((qnth_local p q h k)) :pattern ((qnth p h k) (qnth q h k)))))
