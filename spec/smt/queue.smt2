; Intrusive singly-followed queues (MsgQueue / FragQueue): the k-th element from the head following `prev`.
; P is the whole `prev` field map (object reference -> reference).
; sig qnth : (Array Int Int) Int Int -> Int
; sig qnth_unfold : (Array Int Int) Int Int -> Bool
; sig qnth_shift : (Array Int Int) Int Int -> Bool
; sig qnth_local : (Array Int Int) (Array Int Int) Int Int -> Bool
(declare-fun qnth ((Array Int Int) Int Int) Int)
(assert (forall ((p (Array Int Int)) (h Int)) (! (= (qnth p h 0) h) :pattern ((qnth p h 0)))))
; one unfolding on request
(declare-fun qnth_unfold ((Array Int Int) Int Int) Bool)
(assert (forall ((p (Array Int Int)) (h Int) (k Int))
  (! (and (qnth_unfold p h k) (=> (> k 0) (= (qnth p h k) (select p (qnth p h (- k 1))))))
     :pattern ((qnth_unfold p h k)))))
; shifting the head by one (proved by induction: lemma qnth_shift)
(declare-fun qnth_shift ((Array Int Int) Int Int) Bool)
(assert (forall ((p (Array Int Int)) (h Int) (k Int))
  (! (and (qnth_shift p h k) (=> (>= k 0) (= (qnth p (select p h) k) (qnth p h (+ k 1)))))
     :pattern ((qnth_shift p h k)) :pattern ((qnth p (select p h) k)))))
; locality: if p and q agree on the first k elements' links then the k-th elements agree (lemma qnth_local)
(declare-fun qnth_local ((Array Int Int) (Array Int Int) Int Int) Bool)
(assert (forall ((p (Array Int Int)) (q (Array Int Int)) (h Int) (k Int))
  (! (and (qnth_local p q h k)
          (=> (and (>= k 0) (forall ((j Int)) (! (=> (and (<= 0 j) (< j k)) (= (select p (qnth p h j)) (select q (qnth p h j)))) :pattern ((qnth p h j)))))
              (= (qnth q h k) (qnth p h k))))
     :pattern ((qnth_local p q h k)) :pattern ((qnth p h k) (qnth q h k)))))
; ---- byte accounting of a list of chunks (linkedlist.Buffer): B is the whole `buf` field map (node -> slice) ----
; lsum(P, B, h, j) = total length of the first j chunks from h following P
; sig lsum : (Array Int Int) (Array Int Slice) Int Int -> Int
; sig lsum_unfold : (Array Int Int) (Array Int Slice) Int Int -> Bool
; sig lsum_shift : (Array Int Int) (Array Int Slice) Int Int -> Bool
(declare-fun lsum ((Array Int Int) (Array Int Slice) Int Int) Int)
(assert (forall ((p (Array Int Int)) (b (Array Int Slice)) (h Int)) (! (= (lsum p b h 0) 0) :pattern ((lsum p b h 0)))))
(declare-fun lsum_unfold ((Array Int Int) (Array Int Slice) Int Int) Bool)
(assert (forall ((p (Array Int Int)) (b (Array Int Slice)) (h Int) (j Int))
  (! (and (lsum_unfold p b h j)
          (=> (> j 0) (= (lsum p b h j) (+ (lsum p b h (- j 1)) (sl.len (select b (qnth p h (- j 1))))))))
     :pattern ((lsum_unfold p b h j)))))
; shifting the head by one (lemma lsum_shift)
(declare-fun lsum_shift ((Array Int Int) (Array Int Slice) Int Int) Bool)
(assert (forall ((p (Array Int Int)) (b (Array Int Slice)) (h Int) (j Int))
  (! (and (lsum_shift p b h j) (=> (>= j 0) (= (+ (lsum p b (select p h) j) (sl.len (select b h))) (lsum p b h (+ j 1)))))
     :pattern ((lsum_shift p b h j)))))
; locality (lemma lsum_local): the sum of the first j chunks depends only on which nodes these are and on the
; lengths of their slices. lagree is that premise as an atom (defined, so that it can be proved once and then used)
; sig lagree : (Array Int Int) (Array Int Slice) (Array Int Int) (Array Int Slice) Int Int -> Bool
(declare-fun lagree ((Array Int Int) (Array Int Slice) (Array Int Int) (Array Int Slice) Int Int) Bool)
(assert (forall ((p (Array Int Int)) (b (Array Int Slice)) (q (Array Int Int)) (c (Array Int Slice)) (h Int) (j Int))
  (! (= (lagree p b q c h j)
        (forall ((k Int)) (! (=> (and (<= 0 k) (< k j))
                                 (and (= (qnth q h k) (qnth p h k)) (= (sl.len (select c (qnth p h k))) (sl.len (select b (qnth p h k))))))
                             :pattern ((qnth p h k)) :pattern ((qnth q h k)))))
     :pattern ((lagree p b q c h j)))))
(assert (forall ((p (Array Int Int)) (b (Array Int Slice)) (q (Array Int Int)) (c (Array Int Slice)) (h Int) (j Int))
  (! (=> (and (>= j 0) (lagree p b q c h j)) (= (lsum q c h j) (lsum p b h j)))
     :pattern ((lagree p b q c h j)))))
; a store into B at a node that is not among the first j chunks does not change their sum (lemma lsum_store)
(assert (forall ((p (Array Int Int)) (b (Array Int Slice)) (x Int) (v Slice) (h Int) (j Int))
  (! (=> (forall ((k Int)) (! (=> (and (<= 0 k) (< k j)) (not (= (qnth p h k) x))) :pattern ((qnth p h k))))
         (= (lsum p (store b x v) h j) (lsum p b h j)))
     :pattern ((lsum p (store b x v) h j)))))
; lnonneg(P, B, h, j): the first j chunks have non-negative lengths (an atom, proved once and then used); their sum
; is then non-negative (lemma lsum_nonneg)
; sig lnonneg : (Array Int Int) (Array Int Slice) Int Int -> Bool
(declare-fun lnonneg ((Array Int Int) (Array Int Slice) Int Int) Bool)
(assert (forall ((p (Array Int Int)) (b (Array Int Slice)) (h Int) (j Int))
  (! (= (lnonneg p b h j) (forall ((k Int)) (! (=> (and (<= 0 k) (< k j)) (>= (sl.len (select b (qnth p h k))) 0)) :pattern ((qnth p h k)))))
     :pattern ((lnonneg p b h j)))))
(assert (forall ((p (Array Int Int)) (b (Array Int Slice)) (h Int) (j Int))
  (! (=> (lnonneg p b h j) (>= (lsum p b h j) 0))
     :pattern ((lnonneg p b h j)))))
