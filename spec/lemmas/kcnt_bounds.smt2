; uses
; induction step/base for 0 <= kcnt(n) <= n
(declare-sort K 0)
(declare-fun ind (K Int Int) Int)   ; 1 if the key at position p has slot s, else 0
(assert (forall ((k K) (p Int) (s Int)) (or (= (ind k p s) 0) (= (ind k p s) 1))))
(declare-fun kcnt (K Int Int) Int)
(assert (forall ((k K) (n Int) (s Int))
  (! (and (=> (<= n 0) (= (kcnt k n s) 0)) (=> (> n 0) (= (kcnt k n s) (+ (kcnt k (- n 1) s) (ind k (- n 1) s)))))
     :pattern ((kcnt k n s)))))
(declare-const k K)
(declare-const n Int)
(declare-const s Int)
(assert (>= n 0))
(assert (=> (> n 0) (and (<= 0 (kcnt k (- n 1) s)) (<= (kcnt k (- n 1) s) (- n 1)))))
(assert (not (and (<= 0 (kcnt k n s)) (<= (kcnt k n s) n))))
