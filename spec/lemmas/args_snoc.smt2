; uses
; Induction step and base case for: k+1 bulks from pos = k bulks from pos followed by one more bulk.
; bulk_ok / bulk_next are arbitrary here (the lemma does not depend on what a bulk is).
(declare-sort A 0)
(declare-fun bulk_ok (A Int) Bool)
(declare-fun bulk_next (A Int) Int)
(declare-fun args_ok (A Int Int) Bool)
(declare-fun args_end (A Int Int) Int)
(assert (forall ((a A) (k Int) (pos Int))
  (! (and (=> (<= k 0) (and (args_ok a k pos) (= (args_end a k pos) pos)))
          (=> (> k 0) (and (= (args_ok a k pos) (and (bulk_ok a pos) (args_ok a (- k 1) (bulk_next a pos))))
                           (= (args_end a k pos) (args_end a (- k 1) (bulk_next a pos))))))
     :pattern ((args_ok a k pos)) :pattern ((args_end a k pos)))))
(define-fun P ((a A) (k Int) (pos Int)) Bool
  (and (= (args_ok a (+ k 1) pos) (and (args_ok a k pos) (bulk_ok a (args_end a k pos))))
       (= (args_end a (+ k 1) pos) (bulk_next a (args_end a k pos)))))
(declare-const a A)
(declare-const k Int)
(declare-const pos Int)
(assert (>= k 0))
; induction hypothesis: P holds for k-1 at every position
(assert (=> (> k 0) (forall ((q Int)) (! (P a (- k 1) q) :pattern ((args_ok a (- k 1) q)) :pattern ((args_end a (- k 1) q))))))
(assert (not (P a k pos)))
