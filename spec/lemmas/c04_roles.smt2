; uses
; Read/write classification: every master-only command of spec/writes.json (writes, scripts, cursor
; scans; from the Redis command reference) has a type that route() sends to the master, and every
; replica-eligible read has a type below the write marker.
; maptable rcproxy/core/codec.CommandStr2Type str2type
; golden-set spec/writes.json master_only master_only
; golden-set spec/writes.json replica_ok replica_ok
; const rcproxy/core/codec.ReqWriteCmdStart C_WriteStart
; const rcproxy/core/codec.ReqHscan C_Hscan
; const rcproxy/core/codec.ReqSscan C_Sscan
; const rcproxy/core/codec.ReqZscan C_Zscan
; const rcproxy/core/codec.UNKNOWN C_UNKNOWN
(declare-const s Str)
(define-fun v () (_ BitVec 32) (str2type_val s))
(assert (not (and
  (=> (master_only s) (and (str2type_has s) (or (bvugt v C_WriteStart) (= v C_Hscan) (= v C_Sscan) (= v C_Zscan))))
  (=> (replica_ok s) (and (str2type_has s) (bvult v C_WriteStart) (bvugt v C_UNKNOWN)))
)))
