; uses
; first_idx over a suffix equals first_idx from an offset; proved from the defining property only.
(declare-fun first_idx (Str (_ BitVec 8) Int) Int)
(define-fun is_first ((s Str) (c (_ BitVec 8)) (f Int) (r Int)) Bool
  (or (and (= r (- 1)) (forall ((j Int)) (=> (and (<= f j) (< j (s_len s))) (not (= (s_at s j) c)))))
      (and (<= f r) (< r (s_len s)) (= (s_at s r) c)
           (forall ((j Int)) (=> (and (<= f j) (< j r)) (not (= (s_at s j) c)))))))
(declare-const s Str)
(declare-const c (_ BitVec 8))
(declare-const a Int)
(declare-const r1 Int)
(declare-const r2 Int)
(assert (and (<= 0 a) (<= a (s_len s))))
(define-fun t () Str (s_sub s a (s_len s)))
(assert (is_first t c 0 r1))
(assert (is_first s c a r2))
; instantiation hints
(assert (=> (>= r2 0) (= (s_at t (- r2 a)) (s_at s r2))))
(assert (=> (>= r1 0) (= (s_at t r1) (s_at s (+ a r1)))))
(assert (not (= r1 (ite (= r2 (- 1)) (- 1) (- r2 a)))))
