; uses
; The command tables of core/codec/commands.go (read from the loaded source on every run) agree with
; docs/command.md (supported set), with the golden arity table spec/arity.json, and with each other.
; maptable rcproxy/core/codec.CommandStr2Type str2type
; maptable rcproxy/core/codec.CommandType2ArgsNumber type2nargs
; maptable rcproxy/core/codec.CommandType2Str type2str
; docs-yes docs/command.md docs_yes
; golden-arity spec/arity.json golden
; const rcproxy/core/codec.UNKNOWN C_UNKNOWN
; const rcproxy/core/codec.ReqTooLarge C_TooLarge
; const rcproxy/core/codec.ReqWriteCmdStart C_WriteStart
(define-fun is_auth ((k Str)) Bool (and (= (s_len k) 4) (= (s_at k 0) #x61) (= (s_at k 1) #x75) (= (s_at k 2) #x74) (= (s_at k 3) #x68)))
(define-fun str_same ((a Str) (b Str)) Bool
  (and (= (s_len a) (s_len b)) (forall ((i Int)) (=> (and (<= 0 i) (< i (s_len a))) (= (s_at a i) (s_at b i))))))
(declare-const s Str)
(define-fun v () (_ BitVec 32) (str2type_val s))
(assert (not (and
  (= (str2type_has s) (or (docs_yes s) (is_auth s)))
  (=> (str2type_has s) (and (bvugt v C_UNKNOWN) (bvult v C_TooLarge) (not (= v C_WriteStart))))
  (=> (str2type_has s) (and (type2nargs_has v) (golden_has s) (= (type2nargs_val v) (golden_val s))))
  (=> (str2type_has s) (and (type2str_has v) (str_same (type2str_val v) s)))
  (= str2type_count (+ docs_yes_count 1))
)))
