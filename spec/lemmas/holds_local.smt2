; uses bytes
; holds depends only on the window's bytes: follows from its definition
(declare-const a ByteArr)
(declare-const b ByteArr)
(declare-const s Slice)
(declare-const t Str)
(assert (holds$ a s t))
(assert (agree8 a b s 0 (sl.len s)))
(assert (not (and (= (sl.len s) (s_len t)) (forall ((j Int)) (=> (and (<= 0 j) (< j (sl.len s))) (= (el8 b s j) (s_at t j)))))))
