; uses
; Induction step (and base) for: if contents a and b agree on the first k bytes of slice s then
; dec and alldigits of the first k bytes agree.
(define-fun at ((m ByteArr) (s Slice) (k Int)) (_ BitVec 8) (select m (+ (sl.off s) k)))
(define-fun isdigit ((b (_ BitVec 8))) Bool (and (bvuge b #x30) (bvule b #x39)))
(define-fun digitval ((b (_ BitVec 8))) Int (- (bv2nat b) 48))
(declare-fun dec (ByteArr Slice Int) Int)
(declare-fun alldigits (ByteArr Slice Int) Bool)
(assert (forall ((m ByteArr) (s Slice) (k Int)) (! (and
   (=> (<= k 0) (and (= (dec m s k) 0) (alldigits m s k)))
   (=> (> k 0) (and (= (dec m s k) (+ (* 10 (dec m s (- k 1))) (digitval (at m s (- k 1)))))
                    (= (alldigits m s k) (and (alldigits m s (- k 1)) (isdigit (at m s (- k 1))))))))
  :pattern ((dec m s k)) :pattern ((alldigits m s k)))))
(declare-const a ByteArr)
(declare-const b ByteArr)
(declare-const s Slice)
(declare-const k Int)
(assert (>= k 0))
(assert (forall ((j Int)) (=> (and (<= 0 j) (< j k)) (= (at a s j) (at b s j)))))
; induction hypothesis for k-1
(assert (=> (> k 0) (and (= (dec a s (- k 1)) (dec b s (- k 1))) (= (alldigits a s (- k 1)) (alldigits b s (- k 1))))))
(assert (not (and (= (dec a s k) (dec b s k)) (= (alldigits a s k) (alldigits b s k)))))
