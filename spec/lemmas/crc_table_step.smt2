; uses crcstep
; The 256-entry table in core/pkg/hashkit/crc16.go (read from the loaded source on every run)
; implements the bitwise CRC16/XMODEM step.
; table rcproxy/core/pkg/hashkit.crc16tab crc16tab_at bv32
(define-fun low16 ((c (_ BitVec 32))) (_ BitVec 16) ((_ extract 15 0) c))
(declare-const c (_ BitVec 32))
(declare-const b (_ BitVec 8))
(assert (not (= (low16 (bvxor (bvshl c #x00000008) (crc16tab_at (bvand (bvxor (bvlshr c #x00000008) ((_ zero_extend 24) b)) #x000000ff))))
        (crc_step (low16 c) b))))
