; uses crc
; keyslot of an empty string is 0 (used as an axiom in slot.smt2)
(declare-const k Str)
(assert (= (s_len k) 0))
(assert (not (= (keyslot k) 0)))
