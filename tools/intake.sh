#!/bin/sh
# usage: tools/intake.sh <agent-worktree> <seeded-dir-name> <pkgdir>
# Copies a sub-agent's deliverables into /verif/seeded/<name>, confirms the change in the agent's own worktree
# (build, existing suite unchanged, demo fails with / passes without), then removes the worktree.
export GOFLAGS=-mod=mod GOPROXY=off GOSUMDB=off GOTOOLCHAIN=local
wt=$1; name=$2; pkg=$3
mkdir -p /verif/seeded/$name && cp $wt/OUT/* /verif/seeded/$name/ && rm -f /verif/seeded/$name/*.go
rm -f $wt/p.diff
sh /verif/tools/confirm_seed.sh $wt $pkg 2>&1 | grep -vE "^ok|^suite with"
git -C /repo worktree remove --force $wt; git -C /repo worktree prune
