#!/bin/sh
# usage: tools/seedcheck.sh <seeded-dir-name> <property> [<property>...]
# Applies a seeded breaking change to /repo, runs the given checks (no evidence written), undoes the change.
set -u
d=/verif/seeded/$1; shift
git -C /repo diff --quiet || { echo "/repo has uncommitted changes"; exit 2; }
git -C /repo apply "$d/patch.diff" || { echo "patch does not apply"; exit 2; }
rc=0
for p in "$@"; do
  /verif/bin/rcvc check --property "$p" --no-evidence 2>&1 | grep -E "^(VIOLATION|KNOWN|property|ENGINE)" | cut -c1-250
done
git -C /repo checkout -- .
git -C /repo status --short | head -3
