#!/bin/sh
# usage: tools/reconfirm.sh <seeded-dir-name> <pkgdir>
# Re-confirms a stored seeded change against /repo HEAD in a scratch worktree (removed afterwards):
# patch applies, tree builds, existing suite unchanged, demo fails with / passes without the change.
export GOFLAGS=-mod=mod GOPROXY=off GOSUMDB=off GOTOOLCHAIN=local
d=/verif/seeded/$1; pkg=$2; wt=/tmp/seedwt-$1
git -C /repo worktree add --detach -q $wt HEAD || exit 2
git -C $wt apply $d/patch.diff || { echo "PATCH DOES NOT APPLY"; git -C /repo worktree remove --force $wt; exit 2; }
for f in $d/*_test.go.txt $d/*_test.go; do [ -f "$f" ] && cp $f $wt/$pkg/$(basename $f .txt); done
sh /verif/tools/confirm_seed.sh $wt $pkg
git -C /repo worktree remove --force $wt; git -C /repo worktree prune
