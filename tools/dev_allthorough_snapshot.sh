#!/bin/sh
cd /tmp/snap/verif
mkdir -p work
run2() { for p in "$@"; do (bin/rcvc check --property $p --tier thorough --no-evidence --repo /tmp/snap/repo --verif /tmp/snap/verif > work/th_$p.log 2>&1; echo "$p rc=$? $(tail -1 work/th_$p.log)") & done; wait; }
run2 C05 C20; run2 C18 C19; run2 C17 C14; run2 C09 C10; run2 C15 C16; run2 C04 C06; run2 C01 C03; run2 C07 C08; run2 C13 C02; run2 C11 C12
echo ALLDONE
