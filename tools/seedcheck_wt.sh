#!/bin/sh
# usage: tools/seedcheck_wt.sh <seeded-dir-name> <property> [<property>...]
# Like seedcheck.sh, but applies the seeded change in a scratch worktree of /repo HEAD (removed afterwards) and
# points the checks at it with --repo, so /repo itself is not touched.
set -u
export GOFLAGS=-mod=mod GOPROXY=off GOSUMDB=off GOTOOLCHAIN=local
name=$1; shift
d=/verif/seeded/$name; wt=/tmp/seedchk-$name
git -C /repo worktree add --detach -q $wt HEAD || exit 2
git -C $wt apply "$d/patch.diff" || { echo "patch does not apply"; git -C /repo worktree remove --force $wt; exit 2; }
for p in "$@"; do
  /verif/bin/rcvc check --property "$p" --no-evidence --repo $wt 2>&1 | grep -E "^(VIOLATION|KNOWN|property|ENGINE|undischarged)" | cut -c1-250
done
git -C /repo worktree remove --force $wt; git -C /repo worktree prune
