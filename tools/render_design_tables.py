#!/usr/bin/env python3
# regenerates the three generated tables of DESIGN.md section 0A (fixes, known findings, seeded changes)
# from known_findings.json and seeded/*/meta.json; everything else in DESIGN.md is left alone.
import json, os, glob, re
root = os.path.dirname(os.path.dirname(os.path.abspath(__file__)))
p = os.path.join(root, 'DESIGN.md')
lines = open(p).read().split('\n')
kf = json.load(open(os.path.join(root, 'known_findings.json')))

def esc(s): return s.replace('|', '\\|').replace('\n', ' ')

def replace_table(header, rows):
    i = lines.index(header)
    j = i + 2
    while j < len(lines) and lines[j].startswith('|'):
        j += 1
    lines[i + 2:j] = rows

replace_table('| property | commit | obligation | what failed |',
    ['| %s | `%s` | `%s` | %s |' % (x['property'], x['commit'], x['obligation'], esc(x['what'])) for x in kf if x['status'] == 'fixed'])
replace_table('| property | obligation (exact name matched by the check) | what fails |',
    ['| %s | `%s` | %s |' % (x['property'], x['obligation'], esc(x['what'])) for x in kf if x['status'] != 'fixed'])
rows = []
for m in sorted(glob.glob(os.path.join(root, 'seeded', '*', 'meta.json'))):
    d = json.load(open(m)); name = os.path.basename(os.path.dirname(m))
    caught = '; '.join(d['caught_by']) if isinstance(d.get('caught_by'), list) else str(d.get('caught_by', ''))
    if d.get('retired'):
        caught += ' — retired: ' + d['retired']
    rows.append('| `%s` | %s | %s | %s |' % (name, d['property'], esc(d.get('needs', '')), esc(caught)))
replace_table('| seeded change | property | needs | caught by |', rows)
open(p, 'w').write('\n'.join(lines))
print('fixed', sum(1 for x in kf if x['status'] == 'fixed'), 'known', sum(1 for x in kf if x['status'] != 'fixed'), 'seeded', len(rows))
