#!/bin/sh
# usage: mutrun.sh <name> <property> <file> <python-replace-old> <python-replace-new>
name=$1; prop=$2; file=$3
wt=/tmp/mut-$name
git -C /repo worktree add --detach -q $wt HEAD || exit 2
python3 - "$wt/$file" "$4" "$5" <<'PY'
import sys
p,old,new=sys.argv[1:4]
c=open(p).read()
assert old in c, "pattern not found"
open(p,'w').write(c.replace(old,new,1))
PY
(cd $wt && GOFLAGS=-mod=mod GOPROXY=off GOSUMDB=off GOTOOLCHAIN=local go build ./... 2>&1 | head -3)
/verif/bin/rcvc check --property $prop --no-evidence --repo $wt 2>&1 | grep -E "^(VIOLATION|KNOWN|property|ENGINE|undischarged)" | cut -c1-230
git -C /repo worktree remove --force $wt; git -C /repo worktree prune
