#!/bin/sh
# usage: ov_run.sh <dir> <src> <test>
export GOFLAGS=-mod=mod GOPROXY=off GOSUMDB=off GOTOOLCHAIN=local
dir=$1; src=$2; test=$3
tmp=$(mktemp -d); pkg=$(grep -h -m1 '^package' /repo/$dir/*.go | head -1 | awk '{print $2}')
sed "s/^package PKG/package $pkg/" /verif/replay/common.go.txt > $tmp/common_test.go
printf '{"Replace":{"/repo/%s/zz_verif_%s":"/verif/replay/%s","/repo/%s/zz_verif_common_test.go":"%s/common_test.go"}}' $dir $src $src $dir $tmp > $tmp/ov.json
cd /repo && go test -overlay $tmp/ov.json -vet=off -count=1 -timeout 120s -run "^$test\$" ./$dir 2>&1 | tail -15
rm -rf $tmp
