#!/bin/sh
# usage: confirm_seed.sh <worktree> <pkgdir-of-demo> : confirms build, unchanged suite, demo fails with / passes without the change
export GOFLAGS=-mod=mod GOPROXY=off GOSUMDB=off GOTOOLCHAIN=local
wt=$1; pkg=$2
cd $wt || exit 2
go build ./... || { echo "BUILD FAILS"; exit 1; }
# existing suite with the change, demo tests excluded by name pattern is not possible generally: move demo aside
mkdir -p /tmp/seedtmp; demos=$(git status --short | grep '^??' | awk '{print $2}' | grep '_test.go$')
for d in $demos; do mkdir -p /tmp/seedtmp/$(dirname $d); mv $d /tmp/seedtmp/$d; done
go test -vet=off -count=1 ./core/... 2>&1 | grep -E "^(ok|FAIL|---)" | sort > /tmp/seedtmp/with.txt
for d in $demos; do mv /tmp/seedtmp/$d $d; done
go test -vet=off -count=1 ./$pkg/ > /tmp/seedtmp/demo_with.txt 2>&1; rc_with=$?
git diff > /tmp/seedtmp/p.diff; git apply -R /tmp/seedtmp/p.diff
go test -vet=off -count=1 ./$pkg/ > /tmp/seedtmp/demo_without.txt 2>&1; rc_without=$?
git apply /tmp/seedtmp/p.diff
echo "suite with change:"; cat /tmp/seedtmp/with.txt | tr '\n' ';' | cut -c1-600; echo
echo "demo with change rc=$rc_with (expect != 0; TestCDecodeError alone does not count)"; grep -aE "^--- FAIL" /tmp/seedtmp/demo_with.txt | head -5
echo "demo without change rc=$rc_without"; grep -aE "^--- FAIL" /tmp/seedtmp/demo_without.txt | head -5
rm -rf /tmp/seedtmp
