#!/bin/sh
cd /verif
run3() { for p in "$@"; do (bin/rcvc check --property $p --tier quick > work/chk_$p.log 2>&1; echo "$p rc=$? $(tail -1 work/chk_$p.log)") & done; wait; }
run3 C01 C02 C03; run3 C04 C05 C07; run3 C08 C09 C10; run3 C11 C12 C13; run3 C14 C15 C16; run3 C17 C18 C19; run3 C20 C06
echo ALLDONE
