#!/usr/bin/env python3
"""Regenerates /verif/MANIFEST.json from tools/claims.json (one entry per claimed property)."""
import json, subprocess
base = json.load(open('/root/.vp/BASELINE.json'))
claims = json.load(open('/verif/tools/claims.json'))
hooks = subprocess.run(['git', '-C', '/repo', 'log', '--format=%h %s'], capture_output=True, text=True).stdout.splitlines()
hook_commits = [l.split()[0] for l in hooks if l.split(' ', 1)[1].startswith('verif:')]
checks = []
for pid in sorted(claims['claimed']):
    c = claims['claimed'][pid]
    checks.append({
        "property_id": pid,
        "quick_cmd": f"bin/rcvc check --property {pid} --tier quick",
        "thorough_cmd": f"bin/rcvc check --property {pid} --tier thorough",
        "evidence_file": f"/verif/evidence/{pid}.json",
        "replay_cmd_template": "bin/rcvc replay {path}",
        "engine": "rcvc",
        "level_claimed": {"category": c.get("category", "proof"), "text": c["text"], "design_ref": c.get("design_ref", "DESIGN.md section 6/" + pid)},
        "level_note": c["note"],
        "technique": c.get("technique", "contract-based deductive verification: weakest preconditions over go/ssa, obligations discharged by z3/cvc5"),
    })
na = [{"property_id": pid, "reason": r} for pid, r in sorted(claims['not_applicable'].items())]
m = {
    "version": 1,
    "setup_cmd": "sh /verif/setup.sh",
    "hooks": {"guard": "verif",
              "enable": "-tags verif (only comment-only *_contracts_verif.go files carry the tag; the verifier loads /repo with it)",
              "baseline_off_cmd": base["cmd"], "source_commits": hook_commits, "add_only": True},
    "engines": [{"name": "rcvc", "path": "/verif/engine", "serves_properties": sorted(claims['claimed']),
                 "kind_free_text": "verification-condition generator over go/ssa for contracts kept as //@ comments in /repo; obligations discharged by z3 5.1 / z3 4.8.12 / cvc5 1.0"}],
    "checks": checks,
    "not_applicable": na,
    "notes": "see DESIGN.md; known_findings.json lists recorded and fixed defects",
}
json.dump(m, open('/verif/MANIFEST.json', 'w'), indent=1)
print("claimed:", len(checks), "not applicable:", len(na))
