#!/usr/bin/env python3
"""Cone-of-influence slicing of an rcvc query (sound: only drops assumptions). usage: slice.py in.smt2 out.smt2 [rounds]"""
import re,sys
tok=re.compile(r'\|[^|]*\||[A-Za-z_!$.][A-Za-z0-9_!$.#@-]*')
builtin=set("assert declare-const declare-fun define-fun forall exists let and or not ite select store true false Int Bool Array Str Slice as const distinct div mod abs check-sat".split())
def syms(l): return set(t for t in tok.findall(l) if t not in builtin and not t.startswith('bv'))
src=open(sys.argv[1]).read().split('\n')
rounds=int(sys.argv[3]) if len(sys.argv)>3 else 2
# find start of per-function script: first line declaring |H0 ALLOC|
start=next(i for i,l in enumerate(src) if l.startswith('(declare-const |H0 ALLOC|'))
pre=src[:start]; body=[l for l in src[start:] if l.strip()]
goal=[l for l in body if l.startswith('(assert (not ')][-1]
lines=[l for l in body if l is not goal and not l.startswith('(check-sat')]
decl={}   # symbol -> declaration line index
defs={}   # symbol -> definition line index
for i,l in enumerate(lines):
    m=re.match(r'\((declare-const|declare-fun|define-fun|declare-datatypes) \(*\(*(\|[^|]*\||\S+)',l)
    if m: decl.setdefault(m.group(2).strip('()'),i)
    m=re.match(r'\(assert \(= (\|[^|]*\||[A-Za-z_!$.][A-Za-z0-9_!$.#@-]*) ',l)
    if m and m.group(1) in decl and decl[m.group(1)]==i-1: defs[m.group(1)]=i
S=syms(goal)
keep=set()
def close():
    changed=True
    while changed:
        changed=False
        for s in list(S):
            if s in defs and defs[s] not in keep:
                keep.add(defs[s]); n=syms(lines[defs[s]])-S
                if n: S.update(n); changed=True
close()
for r in range(rounds):
    add=set()
    for i,l in enumerate(lines):
        if i in keep or l.startswith('(declare') or l.startswith('(define-fun') : continue
        if i in defs.values(): continue
        ls=syms(l)
        if ls & S:
            keep.add(i); add|=ls
    S|=add; close()
out=[]
for i,l in enumerate(lines):
    if l.startswith('(declare') or l.startswith('(define-fun') or l.startswith('(define-sort'):
        out.append(l)
    elif i in keep: out.append(l)
open(sys.argv[2],'w').write('\n'.join(pre+out+[goal,'(check-sat)'])+'\n')
print(len(lines),'->',len(out),file=sys.stderr)
