#!/usr/bin/env python3
# renders known_findings.txt from known_findings.json (the file the checks read)
import json, os
root = os.path.dirname(os.path.dirname(os.path.abspath(__file__)))
d = json.load(open(os.path.join(root, 'known_findings.json')))
out = ['# rendered from known_findings.json (the file the checks read); do not edit by hand']
for x in d:
    if x['status'] == 'fixed':
        out.append('fixed: property=%s %s %s: %s' % (x['property'], x['commit'], x['obligation'], x['what']))
    else:
        out.append('known: property=%s %s: %s' % (x['property'], x['obligation'], x['what']))
open(os.path.join(root, 'known_findings.txt'), 'w').write('\n'.join(out) + '\n')
