#!/usr/bin/env python3
"""usage: unsatcore.py file.smt2 : names every top-level assert and prints z3-new's unsat core (debugging aid)."""
import sys, subprocess, re, tempfile
src = '\n'.join(l for l in open(sys.argv[1]).read().split('\n') if not l.lstrip().startswith(';'))
out = []; names = {}; i = 0; depth = 0; cur = ''
# split top-level s-expressions
exprs = []; buf = ''; d = 0; instr = False
for ch in src:
    if ch == '"': instr = not instr
    if not instr:
        if ch == ';' and d == 0:
            pass
        if ch == '(':
            d += 1
        elif ch == ')':
            d -= 1
    buf += ch
    if d == 0 and not instr and ch == ')':
        exprs.append(buf.strip()); buf = ''
res = ['(set-option :produce-unsat-cores true)']
for e in exprs:
    e2 = re.sub(r'^;[^\n]*\n', '', e, flags=re.M).strip()
    if e2.startswith('(assert '):
        n = 'a%d' % i; i += 1
        names[n] = e2
        res.append('(assert (! %s :named %s))' % (e2[len('(assert '):-1], n))
    elif e2.startswith('(check-sat') or e2.startswith('(get-') or e2.startswith('(set-option :produce-models'):
        continue
    else:
        res.append(e2)
res.append('(check-sat)'); res.append('(get-unsat-core)')
with tempfile.NamedTemporaryFile('w', suffix='.smt2', delete=False) as f:
    f.write('\n'.join(res)); fn = f.name
r = subprocess.run(['z3-new', '-T:60', fn], capture_output=True, text=True).stdout
print(r.splitlines()[0])
core = re.findall(r'a\d+', r.split('\n', 1)[1] if '\n' in r else '')
for n in core:
    print(n, names[n][:400])
