#!/bin/sh
# Builds the verifier offline from /verif/engine (x/tools v0.29.0 from the module cache).
set -e
cd /verif/engine
export GOFLAGS=-mod=mod GOPROXY=off GOSUMDB=off GOTOOLCHAIN=local
mkdir -p /verif/bin
go build -o /verif/bin/rcvc ./cmd/rcvc
