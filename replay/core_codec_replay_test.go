package core

// Search harness for the client-side decoder: compares CRespCodec.Decode with a strict reference
// parser of RESP requests as Redis accepts them (multibulk count and bulk lengths in canonical
// decimal, count >= 1, length >= 0), on generated well-formed, truncated and malformed inputs.

import (
	"bytes"
	"fmt"
	"math/rand"
	"strconv"
	"strings"
	"testing"

	"rcproxy/core/codec"
	gerrors "rcproxy/core/pkg/errors"
)

type verifConn struct {
	mockedConn
	data      []byte
	discarded int
}

func (v *verifConn) Peek(n int) ([]byte, error)   { return v.data, nil }
func (v *verifConn) Discard(n int) (int, error)   { v.discarded += n; return n, nil }
func (v *verifConn) Fd() int                      { return 7 }
func (v *verifConn) EnqueueInMsg(_ *Msg)          {}
func (v *verifConn) RemoteAddr() string           { return "1.2.3.4:5" }

const (
	refComplete = iota
	refIncomplete
	refInvalid
)

// canonical decimal as Redis' string2ll accepts it for lengths: digits only, no leading zero unless "0"
func refCanon(p []byte) (int, bool) {
	if len(p) == 0 || len(p) > 18 {
		return 0, false
	}
	if len(p) > 1 && p[0] == '0' {
		return 0, false
	}
	n := 0
	for _, c := range p {
		if c < '0' || c > '9' {
			return 0, false
		}
		n = n*10 + int(c-'0')
	}
	return n, true
}

// refLine: the line starting at pos (without CRLF) and the position after it.
func refLine(bs []byte, pos int) (line []byte, next int, st int) {
	i := bytes.IndexByte(bs[pos:], '\n')
	if i < 0 {
		// a CR-less prefix may still become valid unless it already contains bytes that cannot occur in a header
		return nil, 0, refIncomplete
	}
	if i < 1 || bs[pos+i-1] != '\r' {
		return nil, 0, refInvalid
	}
	return bs[pos : pos+i-1], pos + i + 1, refComplete
}

func refFrame(bs []byte) (st int, consumed int, args [][]byte) {
	if len(bs) == 0 {
		return refIncomplete, 0, nil
	}
	if bs[0] != '*' {
		return refInvalid, 0, nil
	}
	line, pos, s := refLine(bs, 0)
	if s != refComplete {
		return s, 0, nil
	}
	cnt, ok := refCanon(line[1:])
	if !ok || cnt < 1 {
		return refInvalid, 0, nil
	}
	for i := 0; i < cnt; i++ {
		if pos >= len(bs) {
			return refIncomplete, 0, nil
		}
		if bs[pos] != '$' {
			return refInvalid, 0, nil
		}
		line, next, s := refLine(bs, pos)
		if s != refComplete {
			return s, 0, nil
		}
		n, ok := refCanon(line[1:])
		if !ok {
			return refInvalid, 0, nil
		}
		if next+n+2 > len(bs) {
			// payload or its CRLF not complete yet; if what is there of the CRLF is wrong it is invalid
			if next+n < len(bs) && bs[next+n] != '\r' {
				return refInvalid, 0, nil
			}
			return refIncomplete, 0, nil
		}
		if bs[next+n] != '\r' || bs[next+n+1] != '\n' {
			return refInvalid, 0, nil
		}
		args = append(args, bs[next:next+n])
		pos = next + n + 2
	}
	return refComplete, pos, args
}

func verifEncode(args ...string) []byte {
	var b bytes.Buffer
	b.WriteString("*" + strconv.Itoa(len(args)) + "\r\n")
	for _, a := range args {
		b.WriteString("$" + strconv.Itoa(len(a)) + "\r\n" + a + "\r\n")
	}
	return b.Bytes()
}

// verifDecodeOnce runs Decode on input (with limit) and reports a violation text, or "".
func verifDecodeOnce(input []byte, limit int) (msg string) {
	in := append([]byte{}, input...)
	orig := append([]byte{}, input...)
	defer func() {
		if e := recover(); e != nil {
			msg = fmt.Sprintf("Decode(%q) panicked: %v", orig, e)
		}
	}()
	initGnetService()
	c := &verifConn{data: in}
	rc := &CRespCodec{MsgMaxLength: limit}
	m, err := rc.Decode(c)
	if (err == nil) != (m != nil) {
		return fmt.Sprintf("Decode(%q) returned msg=%v err=%v: a nil request with a nil error reaches the handler, which dereferences it", orig, m != nil, err)
	}
	st, k, args := refFrame(orig)
	switch st {
	case refComplete:
		if err != nil {
			return fmt.Sprintf("Decode(%q) = error %v for a complete well-formed request of %d bytes", orig, err, k)
		}
		if c.discarded != k {
			return fmt.Sprintf("Decode(%q) consumed %d bytes, the request is %d bytes long", orig, c.discarded, k)
		}
		if want, known := codec.CommandStr2Type[strings.ToLower(string(args[0]))]; k <= limit {
			switch {
			case !known && m.Type != codec.UNKNOWN:
				return fmt.Sprintf("Decode(%q): unsupported command typed %d", orig, m.Type)
			case known && m.Type != want && m.Type != codec.ReqWrongArgumentsNumber:
				return fmt.Sprintf("Decode(%q): supported command %q (compared case-insensitively) typed %d, table says %d", orig, args[0], m.Type, want)
			}
		}
		if (m.Type == codec.ReqTooLarge) != (k > limit) {
			return fmt.Sprintf("Decode(%q) with limit %d: type too-large=%v but the request's own size is %d", orig, limit, m.Type == codec.ReqTooLarge, k)
		}
		if m.Type != codec.ReqTooLarge && m.Type != codec.ReqMget && m.Type != codec.ReqDel && m.Type != codec.ReqMset {
			// single-fragment request: forwarded bytes are the request with a lower-cased command
			want := append([]byte{}, orig[:k]...)
			cmdStart := bytes.Index(want, []byte("\r\n$")) // header of first bulk
			_ = cmdStart
			low := bytes.ToLower(args[0])
			p := bytes.Index(want, args[0])
			copy(want[p:], low)
			if len(m.Body) != 1 {
				return fmt.Sprintf("Decode(%q): %d fragments for a single-key request", orig, len(m.Body))
			}
			for _, f := range m.Body {
				if !bytes.Equal(f.Req, want) {
					return fmt.Sprintf("Decode(%q): forwarded bytes %q differ from the request bytes %q", orig, f.Req, want)
				}
			}
		}
	case refIncomplete:
		if err == nil {
			return fmt.Sprintf("Decode(%q) accepted an incomplete request", orig)
		}
		if err == codec.ErrInvalidResp {
			return fmt.Sprintf("Decode(%q) = invalid for a proper prefix of a valid request", orig)
		}
	case refInvalid:
		if err == nil {
			for _, f := range m.Body {
				return fmt.Sprintf("Decode(%q) accepted a request Redis rejects as a protocol error and would forward %q", orig, f.Req)
			}
			return fmt.Sprintf("Decode(%q) accepted a request Redis rejects as a protocol error", orig)
		}
		if err != codec.ErrInvalidResp && verifDefinitelyInvalid(orig) {
			return fmt.Sprintf("Decode(%q) = %v: malformed input is treated as incomplete, the connection is neither answered nor closed", orig, err)
		}
	}
	_ = gerrors.ErrIncompletePacket
	return ""
}

// verifDefinitelyInvalid: the input is invalid and stays undecided however much more the client sends:
// Decode keeps answering "incomplete" for several long continuations, so the connection is wedged.
func verifDefinitelyInvalid(bs []byte) bool {
	st, _, _ := refFrame(bs)
	if st != refInvalid {
		return false
	}
	for _, ext := range []string{"\r\n", "a\r\n", strings.Repeat("a", 70) + "\r\n", "\r\n*2\r\n$3\r\nget\r\n$1\r\na\r\n", "*1\r\n$4\r\nping\r\n"} {
		in := append(append([]byte{}, bs...), ext...)
		initGnetService()
		c := &verifConn{data: in}
		rc := &CRespCodec{MsgMaxLength: 10000}
		var err error
		func() {
			defer func() { recover() }()
			_, err = rc.Decode(c)
		}()
		if err == nil || err == codec.ErrInvalidResp {
			return false
		}
	}
	return true
}

var verifCorpus = []string{
	"*0\r\n", "*-1\r\n", "*\r\n", "*1\r\n$4\r\nping\r\n", "*2\r\n$3\r\nget\r\n$-1\r\n", "*2\r\n$3\r\nget\r\n$01\r\na\r\n",
	"*02\r\n$3\r\nget\r\n$1\r\na\r\n", "*9223372036854775808\r\n", "*18446744073709551618\r\n$3\r\nget\r\n$1\r\na\r\n",
	"*2\r\n$3\r\nGET\r\n$1\r\na\r\n", "*2\r\n$3\r\ngET\r\n$1\r\na\r\n", "*2\r\n$3\r\nGeT\r\n$1\r\na\r\n", "*1\r\n$4\r\npiNG\r\n", "*3\r\n$4\r\nmGET\r\n$1\r\na\r\n$1\r\nb\r\n", "*3\n", "get a\r\n", "*2\r\n$3\r\nget\r\n$1\r\nab\r\n", "*2\r\n$3\r\nget\r\n$0\r\n\r\n",
	"*2\r\n$3\r\nget\r\n$1\r\na\r\n*2\r\n$3\r\nget\r\n$1\r\nb\r\n", "*1\r\n$-1\r\n", "*1\r\n$\r\n", "$3\r\nget\r\n", "*1\r\n:1\r\n",
	"*2000000000\r\n$3\r\nget\r\n", "*3\r\n$4\r\nmget\r\n$1\r\na\r\n$1\r\nb\r\n", "*3\r\n$4\r\nmset\r\n$1\r\na\r\n$1\r\nb\r\n",
	"*2\r\n$3\r\ndel\r\n$1\r\na\r\n", "*4\r\n$4\r\neval\r\n$1\r\ns\r\n$1\r\n1\r\n$1\r\nk\r\n", "*1\r\n$4\r\nquit\r\n",
	"*2\r\n$4\r\nauth\r\n$2\r\npw\r\n", "*2\r\n$3\r\nget\r\n$1\r\n\r\r\n", "*2\r\n$3\r\nget\r\n$2\r\n\r\n\r\n", "\r\n", "*1\r\n\r\n",
	"*1\r\n$4\r\nping\n\r", "*1\r\n$4ping\r\n", "*+1\r\n$4\r\nping\r\n", "* 1\r\n$4\r\nping\r\n", "*1\r\n$ 4\r\nping\r\n",
}

func TestVerifSearch_Decode(t *testing.T) {
	for _, limit := range []int{30, 10000} {
		for _, s := range verifCorpus {
			in := []byte(s)
			for cut := 0; cut <= len(in); cut++ {
				if m := verifDecodeOnce(in[:cut], limit); m != "" {
					verifWitness(t, "%s", m)
					return
				}
			}
		}
	}
	rng := rand.New(rand.NewSource(verifSeed()))
	cmds := []string{"get", "GET", "gEt", "sET", "zRangeByScore", "set", "mget", "del", "mset", "eval", "ping", "hset", "nosuch", "zrange", "auth"}
	iters := 4000
	if verifThorough() {
		iters = 60000
	}
	for it := 0; it < iters; it++ {
		var args []string
		args = append(args, cmds[rng.Intn(len(cmds))])
		for n := rng.Intn(5); n > 0; n-- {
			l := rng.Intn(6)
			b := make([]byte, l)
			for i := range b {
				b[i] = "ab\r\n$*{}0"[rng.Intn(9)]
			}
			args = append(args, string(b))
		}
		in := verifEncode(args...)
		// follow with a second request half of the time (pipeline)
		if rng.Intn(2) == 0 {
			in = append(in, verifEncode("get", strings.Repeat("x", rng.Intn(30)))...)
		}
		// mutate
		switch rng.Intn(6) {
		case 0:
			if len(in) > 0 {
				in[rng.Intn(len(in))] = "0-$*\r\n9 a"[rng.Intn(9)]
			}
		case 1:
			in = in[:rng.Intn(len(in)+1)]
		case 2:
			p := rng.Intn(len(in))
			in = append(in[:p:p], append([]byte{"0-1\r\n$*"[rng.Intn(7)]}, in[p:]...)...)
		}
		limit := []int{20, 40, 10000}[rng.Intn(3)]
		if m := verifDecodeOnce(in, limit); m != "" {
			verifWitness(t, "%s", m)
			return
		}
	}
}
