package core

// Search harness for conn.sread: replies arriving for a fragment that is already done (its request timed out or
// failed through a sibling and may have been recycled) must be discarded, whatever the reply is.

import (
	"testing"
	"time"

	"golang.org/x/sys/unix"

	"rcproxy/core/codec"
	"rcproxy/core/internal/netpoll"
	"rcproxy/core/pkg/buffer/elastic"
	"rcproxy/core/pkg/utils"
)

func verifSConn(fd int) *conn {
	return &conn{fd: fd, opened: true, connType: ConnServer, initStatus: Initialized,
		inMsgQueue: &MsgQueue{}, inFragQueue: &FragQueue{}, outFragQueue: &FragQueue{}}
}

func TestVerifSearch_SreadLate(t *testing.T) {
	initGnetService()
	EngineGlobal.eng = &engine{opts: &Options{}}
	replies := []string{"+OK\r\n", "$3\r\nfoo\r\n", ":1\r\n", "-ERR x\r\n", "-MOVED 10576 127.0.0.1:7003\r\n", "-ASK 10576 127.0.0.1:7003\r\n", "*1\r\n$3\r\nfoo\r\n"}
	for _, rep := range replies {
		cli := new(mockedConn)
		cli.On("Fd").Return(7)
		// a recycled request object: what MsgPool.Put leaves behind
		msg := &Msg{}
		f := &Frag{Owner: cli, Peer: msg, Done: true, Req: []byte("*2\r\n$3\r\nget\r\n$3\r\nFoo\r\n")}
		s := verifSConn(11)
		s.inFragQueue.PushTail(f)
		s.buffer = utils.S2B(rep)
		var got *Frag
		var err error
		func() {
			defer func() {
				if p := recover(); p != nil {
					verifWitness(t, "conn.sread panicked on late reply %q for a done fragment: %v", rep, p)
				}
			}()
			got, err = s.sread()
		}()
		if t.Failed() {
			return
		}
		if err == codec.MovedOrAsk || (err == nil && got != nil) {
			verifWitness(t, "conn.sread(late reply %q for a fragment that is already done) returned (frag=%v, err=%v): the reply is dispatched (redirect re-sent on behalf of a finished, possibly recycled request) instead of being discarded", rep, got != nil, err)
			return
		}
		if msg.Done || msg.FragDoneNumber != 0 || len(msg.RspBody) != 0 {
			verifWitness(t, "conn.sread(late reply %q) changed the finished request: Done=%v FragDoneNumber=%d RspBody=%q", rep, msg.Done, msg.FragDoneNumber, msg.RspBody)
			return
		}
	}
}

// TestVerifSearch_FlushWriteError: the flush in eventloop.sread when the write to the client fails and closing
// the client reports an error (here: the descriptor is already invalid, so both writev and epoll_ctl(DEL) fail).
// The event loop must survive it.
func TestVerifSearch_FlushWriteError(t *testing.T) {
	saved := EngineGlobal
	defer func() { EngineGlobal = saved }()
	eng := &engine{opts: &Options{}}
	el := &eventloop{engine: eng, connections: map[int]*conn{}}
	eng.el = el
	eng.eventHandler = &BuiltinEventEngine{}
	el.eventHandler = eng.eventHandler
	p, err := netpoll.OpenPoller()
	if err != nil {
		t.Skipf("no poller: %v", err)
	}
	defer p.Close()
	el.poller = p
	EngineGlobal = &Engine{eng: eng, cCodec: CRespCodec{10000}, sCodec: SRespCodec{10000}}
	sp, err := unix.Socketpair(unix.AF_UNIX, unix.SOCK_STREAM, 0)
	if err != nil {
		t.Skipf("socketpair: %v", err)
	}
	unix.Close(sp[0])
	unix.Close(sp[1])
	mk := func(fd int, typ ConnType) *conn {
		c := &conn{fd: fd, loop: el, connType: typ, opened: true, initStatus: Initialized,
			inMsgQueue: &MsgQueue{}, inFragQueue: &FragQueue{}, outFragQueue: &FragQueue{}}
		c.outboundBuffer, _ = elastic.New(1 << 16)
		c.pollAttachment = netpoll.GetPollAttachment()
		c.pollAttachment.FD = fd
		return c
	}
	client := mk(sp[0], ConnClient) // stale descriptor
	back := mk(1001, ConnServer)
	m := &Msg{Id: 1, Type: codec.ReqGet, Owner: client}
	f := &Frag{Id: 1, Owner: client, Peer: m, Type: codec.ReqGet, Key: "k"}
	m.Body = map[int32]*Frag{1: f}
	client.EnqueueInMsg(m)
	back.inFragQueue.PushTail(f)
	back.buffer = []byte("$1\r\nA\r\n")
	func() {
		defer func() {
			if r := recover(); r != nil {
				verifWitness(t, "eventloop.sread panicked while flushing to a client whose socket write fails and whose close reports an error: %v", r)
			}
		}()
		_ = el.sread(back)
	}()
}

// TestVerifSearch_SreadGarbage: bytes from a backend that are not a RESP reply. The read handler must return
// (leaving the bytes, or closing the connection); it must not spin on them.
func TestVerifSearch_SreadGarbage(t *testing.T) {
	saved := EngineGlobal
	defer func() { EngineGlobal = saved }()
	for _, in := range []string{"?what\r\n", "*x\r\n", "$-7\r\n", "\x00\x01\x02\r\n"} {
		eng := &engine{opts: &Options{}}
		el := &eventloop{engine: eng, connections: map[int]*conn{}}
		eng.el = el
		eng.eventHandler = &BuiltinEventEngine{}
		el.eventHandler = eng.eventHandler
		p, err := netpoll.OpenPoller()
		if err != nil {
			t.Skipf("no poller: %v", err)
		}
		el.poller = p
		EngineGlobal = &Engine{eng: eng, cCodec: CRespCodec{10000}, sCodec: SRespCodec{10000}}
		sp, err := unix.Socketpair(unix.AF_UNIX, unix.SOCK_STREAM, 0)
		if err != nil {
			t.Skipf("socketpair: %v", err)
		}
		back := &conn{fd: sp[0], loop: el, connType: ConnServer, opened: true, initStatus: Initialized,
			inMsgQueue: &MsgQueue{}, inFragQueue: &FragQueue{}, outFragQueue: &FragQueue{}}
		back.outboundBuffer, _ = elastic.New(1 << 16)
		back.pollAttachment = netpoll.GetPollAttachment()
		back.pollAttachment.FD = sp[0]
		el.connections[sp[0]] = back
		cli := new(mockedConn)
		cli.On("Fd").Return(7)
		m := &Msg{Id: 1, Type: codec.ReqGet, Owner: cli}
		f := &Frag{Id: 1, Owner: cli, Peer: m, Type: codec.ReqGet, Key: "k"}
		m.Body = map[int32]*Frag{1: f}
		back.inFragQueue.PushTail(f)
		back.buffer = []byte(in)
		done := make(chan struct{})
		go func() {
			defer func() { recover(); close(done) }()
			_ = el.sread(back)
		}()
		select {
		case <-done:
		case <-time.After(300 * time.Millisecond):
			verifWitness(t, "eventloop.sread does not return on backend bytes %q that are not a RESP reply: the single event loop spins on them forever (the parse error is answered with `continue` and nothing is consumed)", in)
			return
		}
		unix.Close(sp[1])
		p.Close()
	}
}
