package core

// Search harness for conn.sread: replies arriving for a fragment that is already done (its request timed out or
// failed through a sibling and may have been recycled) must be discarded, whatever the reply is.

import (
	"testing"

	"rcproxy/core/codec"
	"rcproxy/core/pkg/utils"
)

func verifSConn(fd int) *conn {
	return &conn{fd: fd, opened: true, connType: ConnServer, initStatus: Initialized,
		inMsgQueue: &MsgQueue{}, inFragQueue: &FragQueue{}, outFragQueue: &FragQueue{}}
}

func TestVerifSearch_SreadLate(t *testing.T) {
	initGnetService()
	EngineGlobal.eng = &engine{opts: &Options{}}
	replies := []string{"+OK\r\n", "$3\r\nfoo\r\n", ":1\r\n", "-ERR x\r\n", "-MOVED 10576 127.0.0.1:7003\r\n", "-ASK 10576 127.0.0.1:7003\r\n", "*1\r\n$3\r\nfoo\r\n"}
	for _, rep := range replies {
		cli := new(mockedConn)
		cli.On("Fd").Return(7)
		// a recycled request object: what MsgPool.Put leaves behind
		msg := &Msg{}
		f := &Frag{Owner: cli, Peer: msg, Done: true, Req: []byte("*2\r\n$3\r\nget\r\n$3\r\nFoo\r\n")}
		s := verifSConn(11)
		s.inFragQueue.PushTail(f)
		s.buffer = utils.S2B(rep)
		var got *Frag
		var err error
		func() {
			defer func() {
				if p := recover(); p != nil {
					verifWitness(t, "conn.sread panicked on late reply %q for a done fragment: %v", rep, p)
				}
			}()
			got, err = s.sread()
		}()
		if t.Failed() {
			return
		}
		if err == codec.MovedOrAsk || (err == nil && got != nil) {
			verifWitness(t, "conn.sread(late reply %q for a fragment that is already done) returned (frag=%v, err=%v): the reply is dispatched (redirect re-sent on behalf of a finished, possibly recycled request) instead of being discarded", rep, got != nil, err)
			return
		}
		if msg.Done || msg.FragDoneNumber != 0 || len(msg.RspBody) != 0 {
			verifWitness(t, "conn.sread(late reply %q) changed the finished request: Done=%v FragDoneNumber=%d RspBody=%q", rep, msg.Done, msg.FragDoneNumber, msg.RspBody)
			return
		}
	}
}
