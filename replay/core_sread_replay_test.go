package core

// Search harness for conn.sread: replies arriving for a fragment that is already done (its request timed out or
// failed through a sibling and may have been recycled) must be discarded, whatever the reply is.

import (
	"testing"
	"time"

	"golang.org/x/sys/unix"

	"rcproxy/core/codec"
	"rcproxy/core/internal/netpoll"
	"rcproxy/core/pkg/buffer/elastic"
	"rcproxy/core/pkg/utils"
)

func verifSConn(fd int) *conn {
	return &conn{fd: fd, opened: true, connType: ConnServer, initStatus: Initialized,
		inMsgQueue: &MsgQueue{}, inFragQueue: &FragQueue{}, outFragQueue: &FragQueue{}}
}

func TestVerifSearch_SreadLate(t *testing.T) {
	initGnetService()
	EngineGlobal.eng = &engine{opts: &Options{}}
	replies := []string{"+OK\r\n", "$3\r\nfoo\r\n", ":1\r\n", "-ERR x\r\n", "-MOVED 10576 127.0.0.1:7003\r\n", "-ASK 10576 127.0.0.1:7003\r\n", "*1\r\n$3\r\nfoo\r\n"}
	for _, rep := range replies {
		cli := new(mockedConn)
		cli.On("Fd").Return(7)
		// a recycled request object: what MsgPool.Put leaves behind
		msg := &Msg{}
		f := &Frag{Owner: cli, Peer: msg, Done: true, Req: []byte("*2\r\n$3\r\nget\r\n$3\r\nFoo\r\n")}
		s := verifSConn(11)
		s.inFragQueue.PushTail(f)
		s.buffer = utils.S2B(rep)
		var got *Frag
		var err error
		func() {
			defer func() {
				if p := recover(); p != nil {
					verifWitness(t, "conn.sread panicked on late reply %q for a done fragment: %v", rep, p)
				}
			}()
			got, err = s.sread()
		}()
		if t.Failed() {
			return
		}
		if err == codec.MovedOrAsk || (err == nil && got != nil) {
			verifWitness(t, "conn.sread(late reply %q for a fragment that is already done) returned (frag=%v, err=%v): the reply is dispatched (redirect re-sent on behalf of a finished, possibly recycled request) instead of being discarded", rep, got != nil, err)
			return
		}
		if msg.Done || msg.FragDoneNumber != 0 || len(msg.RspBody) != 0 {
			verifWitness(t, "conn.sread(late reply %q) changed the finished request: Done=%v FragDoneNumber=%d RspBody=%q", rep, msg.Done, msg.FragDoneNumber, msg.RspBody)
			return
		}
	}
}

// TestVerifSearch_FlushWriteError: the flush in eventloop.sread when the write to the client fails and closing
// the client reports an error (here: the descriptor is already invalid, so both writev and epoll_ctl(DEL) fail).
// The event loop must survive it.
func TestVerifSearch_FlushWriteError(t *testing.T) {
	saved := EngineGlobal
	defer func() { EngineGlobal = saved }()
	eng := &engine{opts: &Options{}}
	el := &eventloop{engine: eng, connections: map[int]*conn{}}
	eng.el = el
	eng.eventHandler = &BuiltinEventEngine{}
	el.eventHandler = eng.eventHandler
	p, err := netpoll.OpenPoller()
	if err != nil {
		t.Skipf("no poller: %v", err)
	}
	defer p.Close()
	el.poller = p
	EngineGlobal = &Engine{eng: eng, cCodec: CRespCodec{10000}, sCodec: SRespCodec{10000}}
	sp, err := unix.Socketpair(unix.AF_UNIX, unix.SOCK_STREAM, 0)
	if err != nil {
		t.Skipf("socketpair: %v", err)
	}
	unix.Close(sp[0])
	unix.Close(sp[1])
	mk := func(fd int, typ ConnType) *conn {
		c := &conn{fd: fd, loop: el, connType: typ, opened: true, initStatus: Initialized,
			inMsgQueue: &MsgQueue{}, inFragQueue: &FragQueue{}, outFragQueue: &FragQueue{}}
		c.outboundBuffer, _ = elastic.New(1 << 16)
		c.pollAttachment = netpoll.GetPollAttachment()
		c.pollAttachment.FD = fd
		return c
	}
	client := mk(sp[0], ConnClient) // stale descriptor
	back := mk(1001, ConnServer)
	m := &Msg{Id: 1, Type: codec.ReqGet, Owner: client}
	f := &Frag{Id: 1, Owner: client, Peer: m, Type: codec.ReqGet, Key: "k"}
	m.Body = map[int32]*Frag{1: f}
	client.EnqueueInMsg(m)
	back.inFragQueue.PushTail(f)
	back.buffer = []byte("$1\r\nA\r\n")
	func() {
		defer func() {
			if r := recover(); r != nil {
				verifWitness(t, "eventloop.sread panicked while flushing to a client whose socket write fails and whose close reports an error: %v", r)
			}
		}()
		_ = el.sread(back)
	}()
}

// TestVerifSearch_SreadGarbage: bytes from a backend that are not a RESP reply. The read handler must return
// (leaving the bytes, or closing the connection); it must not spin on them.
func TestVerifSearch_SreadGarbage(t *testing.T) {
	saved := EngineGlobal
	defer func() { EngineGlobal = saved }()
	for _, in := range []string{"?what\r\n", "*x\r\n", "$-7\r\n", "\x00\x01\x02\r\n"} {
		eng := &engine{opts: &Options{}}
		el := &eventloop{engine: eng, connections: map[int]*conn{}}
		eng.el = el
		eng.eventHandler = &BuiltinEventEngine{}
		el.eventHandler = eng.eventHandler
		p, err := netpoll.OpenPoller()
		if err != nil {
			t.Skipf("no poller: %v", err)
		}
		el.poller = p
		EngineGlobal = &Engine{eng: eng, cCodec: CRespCodec{10000}, sCodec: SRespCodec{10000}}
		sp, err := unix.Socketpair(unix.AF_UNIX, unix.SOCK_STREAM, 0)
		if err != nil {
			t.Skipf("socketpair: %v", err)
		}
		back := &conn{fd: sp[0], loop: el, connType: ConnServer, opened: true, initStatus: Initialized,
			inMsgQueue: &MsgQueue{}, inFragQueue: &FragQueue{}, outFragQueue: &FragQueue{}}
		back.outboundBuffer, _ = elastic.New(1 << 16)
		back.pollAttachment = netpoll.GetPollAttachment()
		back.pollAttachment.FD = sp[0]
		el.connections[sp[0]] = back
		cli := new(mockedConn)
		cli.On("Fd").Return(7)
		m := &Msg{Id: 1, Type: codec.ReqGet, Owner: cli}
		f := &Frag{Id: 1, Owner: cli, Peer: m, Type: codec.ReqGet, Key: "k"}
		m.Body = map[int32]*Frag{1: f}
		back.inFragQueue.PushTail(f)
		back.buffer = []byte(in)
		done := make(chan struct{})
		go func() {
			defer func() { recover(); close(done) }()
			_ = el.sread(back)
		}()
		select {
		case <-done:
		case <-time.After(300 * time.Millisecond):
			verifWitness(t, "eventloop.sread does not return on backend bytes %q that are not a RESP reply: the single event loop spins on them forever (the parse error is answered with `continue` and nothing is consumed)", in)
			return
		}
		unix.Close(sp[1])
		p.Close()
	}
}

// ---- eventloop.cread: a locally answered request behind a forwarded one ----

type verifHandler struct {
	BuiltinEventEngine
}

// the part of the real handler that matters here: PING is answered locally, everything else is queued
func (h *verifHandler) OnCReact(r *Msg, c CConn) ([]byte, Action) {
	if r.Type == codec.ReqPing {
		return []byte("+PONG\r\n"), None
	}
	c.EnqueueInMsg(r)
	return nil, None
}

func TestVerifSearch_CreadLocalReplyOrder(t *testing.T) {
	saved := EngineGlobal
	defer func() { EngineGlobal = saved }()
	eng := &engine{opts: &Options{}}
	el := &eventloop{engine: eng, connections: map[int]*conn{}}
	eng.el = el
	el.eventHandler = &verifHandler{}
	EngineGlobal = &Engine{eng: eng, cCodec: CRespCodec{10000}, sCodec: SRespCodec{10000}}
	sp, err := unix.Socketpair(unix.AF_UNIX, unix.SOCK_STREAM, 0)
	if err != nil {
		t.Skipf("socketpair: %v", err)
	}
	defer unix.Close(sp[0])
	defer unix.Close(sp[1])
	unix.SetNonblock(sp[1], true)
	c := &conn{fd: sp[0], loop: el, connType: ConnClient, opened: true, initStatus: Initialized,
		inMsgQueue: &MsgQueue{}, inFragQueue: &FragQueue{}, outFragQueue: &FragQueue{}}
	c.outboundBuffer, _ = elastic.New(1 << 16)
	c.buffer = []byte("*2\r\n$3\r\nget\r\n$1\r\nk\r\n*1\r\n$4\r\nping\r\n")
	if err := el.cread(c); err != nil {
		t.Fatalf("cread: %v", err)
	}
	buf := make([]byte, 256)
	n, _ := unix.Read(sp[1], buf)
	if n > 0 && c.inMsgQueue.count > 0 {
		verifWitness(t, "pipeline GET k; PING: the client already received %q while the reply to the earlier GET is still outstanding (%d request queued): replies out of request order", buf[:n], c.inMsgQueue.count)
	}
}

// ---- eventloop.sread: a completed reply must not be withheld by a later request ----
func TestVerifSearch_FlushPrefix(t *testing.T) {
	saved := EngineGlobal
	defer func() { EngineGlobal = saved }()
	eng := &engine{opts: &Options{}}
	el := &eventloop{engine: eng, connections: map[int]*conn{}}
	eng.el = el
	el.eventHandler = &verifHandler{}
	EngineGlobal = &Engine{eng: eng, cCodec: CRespCodec{10000}, sCodec: SRespCodec{10000}}
	sp, err := unix.Socketpair(unix.AF_UNIX, unix.SOCK_STREAM, 0)
	if err != nil {
		t.Skipf("socketpair: %v", err)
	}
	defer unix.Close(sp[0])
	defer unix.Close(sp[1])
	unix.SetNonblock(sp[1], true)
	mk := func(fd int, typ ConnType) *conn {
		c := &conn{fd: fd, loop: el, connType: typ, opened: true, initStatus: Initialized,
			inMsgQueue: &MsgQueue{}, inFragQueue: &FragQueue{}, outFragQueue: &FragQueue{}}
		c.outboundBuffer, _ = elastic.New(1 << 16)
		return c
	}
	client := mk(sp[0], ConnClient)
	a, b := mk(1001, ConnServer), mk(1002, ConnServer)
	req := func(id uint64, s *conn) {
		m := &Msg{Id: id, Type: codec.ReqGet, Owner: client}
		f := &Frag{Id: id, Owner: client, Peer: m, Type: codec.ReqGet, Key: "k"}
		m.Body = map[int32]*Frag{int32(id): f}
		client.EnqueueInMsg(m)
		s.inFragQueue.PushTail(f)
	}
	req(1, a) // oldest request, fast backend
	req(2, b) // newer request, backend that never answers
	a.buffer = []byte("$1\r\nA\r\n")
	if err := el.sread(a); err != nil {
		t.Fatalf("sread: %v", err)
	}
	buf := make([]byte, 256)
	n, _ := unix.Read(sp[1], buf)
	if n <= 0 && client.inMsgQueue.count == 2 && client.inMsgQueue.head.Done {
		verifWitness(t, "requests 1 (backend a) and 2 (backend b) pipelined; a answered request 1, b is silent: the client received nothing, the completed reply %q stays queued behind request 2 for as long as the client keeps a later request outstanding", client.inMsgQueue.head.RspBody)
	}
}

// ---- eventloop.msgTimeout: after a request timed out the connection must stay usable ----
func TestVerifSearch_TimeoutLeavesQueueUsable(t *testing.T) {
	saved := EngineGlobal
	defer func() { EngineGlobal = saved }()
	eng := &engine{opts: &Options{RedisRequestTimeout: 1}}
	el := &eventloop{engine: eng, connections: map[int]*conn{}}
	eng.el = el
	el.eventHandler = &verifHandler{}
	p, err := netpoll.OpenPoller()
	if err != nil {
		t.Skipf("no poller: %v", err)
	}
	defer p.Close()
	el.poller = p
	EngineGlobal = &Engine{eng: eng, cCodec: CRespCodec{10000}, sCodec: SRespCodec{10000}}
	sp, err := unix.Socketpair(unix.AF_UNIX, unix.SOCK_STREAM, 0)
	if err != nil {
		t.Skipf("socketpair: %v", err)
	}
	defer unix.Close(sp[0])
	defer unix.Close(sp[1])
	unix.SetNonblock(sp[1], true)
	mk := func(fd int, typ ConnType) *conn {
		c := &conn{fd: fd, loop: el, connType: typ, opened: true, initStatus: Initialized,
			inMsgQueue: &MsgQueue{}, inFragQueue: &FragQueue{}, outFragQueue: &FragQueue{}}
		c.outboundBuffer, _ = elastic.New(1 << 16)
		return c
	}
	client := mk(sp[0], ConnClient)
	stalled, healthy := mk(1001, ConnServer), mk(1002, ConnServer)
	req := func(id uint64, s *conn) *Msg {
		m := &Msg{Id: id, Type: codec.ReqGet, Owner: client}
		f := &Frag{Id: id, Owner: client, Peer: m, Type: codec.ReqGet, Key: "k"}
		m.Body = map[int32]*Frag{int32(id): f}
		client.EnqueueInMsg(m)
		s.enqueueInFrag(f) // as handleWriteSignal does: awaiting reply, deadline armed
		return m
	}
	m1 := req(1, stalled)
	time.Sleep(5 * time.Millisecond)
	el.msgTimeout() // request 1 expires
	m2 := req(2, healthy)
	healthy.buffer = []byte("$1\r\nB\r\n")
	if err := el.sread(healthy); err != nil {
		t.Fatalf("sread: %v", err)
	}
	for lengthOfTimeoutQueue() > 0 {
		deleteMinFromTimeoutQueue()
	}
	if client.inMsgQueue.count > 0 && client.inMsgQueue.head == m1 && !m1.Done && m2.Done {
		verifWitness(t, "request 1 timed out (every fragment done, error sent), request 2 was then answered by its backend: request 1 is still at the head of the client's queue and never becomes Done, so the reply to request 2 (%q) and to every later request on this connection is withheld forever", m2.RspBody)
	}
}
