package ring

// Model-based search for ring.Buffer: every operation sequence is compared with an ideal FIFO byte
// queue (a []byte). Used to find a concrete failing sequence when an obligation fails, and as a
// bounded stand-in in the thorough tier.

import (
	"bytes"
	"fmt"
	"math/rand"
	"testing"
)

type verifRingOp struct {
	Kind string
	N    int
}

func verifRunRing(initial int, ops []verifRingOp) (msg string) {
	defer func() {
		if e := recover(); e != nil {
			msg = fmt.Sprintf("panic: %v", e)
		}
	}()
	rb := New(initial)
	var ref []byte
	next := byte(1)
	gen := func(n int) []byte {
		b := make([]byte, n)
		for i := range b {
			b[i] = next
			next++
		}
		return b
	}
	for i, op := range ops {
		switch op.Kind {
		case "write":
			p := gen(op.N)
			n, _ := rb.Write(p)
			if n != len(p) {
				return fmt.Sprintf("op %d Write(%d) returned %d", i, len(p), n)
			}
			ref = append(ref, p...)
		case "writebyte":
			p := gen(1)
			_ = rb.WriteByte(p[0])
			ref = append(ref, p[0])
		case "read":
			p := make([]byte, op.N)
			n, _ := rb.Read(p)
			want := op.N
			if want > len(ref) {
				want = len(ref)
			}
			if n != want || !bytes.Equal(p[:n], ref[:want]) {
				return fmt.Sprintf("op %d Read(%d) = %d %v, want %v", i, op.N, n, p[:n], ref[:want])
			}
			ref = ref[want:]
		case "readbyte":
			b, err := rb.ReadByte()
			if len(ref) == 0 {
				if err == nil {
					return fmt.Sprintf("op %d ReadByte on empty buffer returned no error", i)
				}
			} else {
				if err != nil || b != ref[0] {
					return fmt.Sprintf("op %d ReadByte = %d,%v want %d", i, b, err, ref[0])
				}
				ref = ref[1:]
			}
		case "discard":
			n, _ := rb.Discard(op.N)
			want := op.N
			if want < 0 {
				want = 0
			}
			if want > len(ref) {
				want = len(ref)
			}
			if n != want {
				return fmt.Sprintf("op %d Discard(%d) = %d want %d", i, op.N, n, want)
			}
			ref = ref[want:]
		case "reset":
			rb.Reset()
			ref = nil
		}
		// observation after every step
		h, t := rb.Peek(-1)
		got := append(append([]byte{}, h...), t...)
		if !bytes.Equal(got, ref) {
			return fmt.Sprintf("after op %d (%s %d): Peek(-1) has %d bytes %v..., want %d bytes", i, op.Kind, op.N, len(got), head(got), len(ref))
		}
		if rb.Buffered() != len(ref) || rb.IsEmpty() != (len(ref) == 0) || rb.Available() != rb.Cap()-len(ref) {
			return fmt.Sprintf("after op %d: Buffered=%d IsEmpty=%v Available=%d Cap=%d, want length %d", i, rb.Buffered(), rb.IsEmpty(), rb.Available(), rb.Cap(), len(ref))
		}
		if !bytes.Equal(rb.Bytes(), ref) && !(len(ref) == 0 && rb.Bytes() == nil) {
			return fmt.Sprintf("after op %d: Bytes() differs from the queue", i)
		}
		if n := 3; len(ref) > n {
			h, t := rb.Peek(n)
			got := append(append([]byte{}, h...), t...)
			if !bytes.Equal(got, ref[:n]) {
				return fmt.Sprintf("after op %d: Peek(%d) = %v want %v", i, n, got, ref[:n])
			}
		}
	}
	return ""
}

func head(b []byte) []byte {
	if len(b) > 8 {
		return b[:8]
	}
	return b
}

func TestVerifSearch_Ring(t *testing.T) {
	// directed: a full buffer at each growth regime followed by every kind of write
	for _, size := range []int{0, 2, 8, 1024, 4096, 8192} {
		for _, tail := range []verifRingOp{{"writebyte", 0}, {"write", 1}, {"write", size + 1}} {
			ops := []verifRingOp{{"write", size}, tail, {"read", 3}, {"writebyte", 0}}
			if size > 4 {
				ops = []verifRingOp{{"write", size - 2}, {"discard", 2}, {"write", 4}, tail, {"read", 3}, {"writebyte", 0}}
			}
			if m := verifRunRing(size, ops); m != "" {
				verifWitness(t, "ring.New(%d) then %v: %s", size, ops, m)
				return
			}
		}
	}
	rng := rand.New(rand.NewSource(verifSeed()))
	kinds := []string{"write", "write", "writebyte", "read", "readbyte", "discard", "reset", "discard"}
	iters := 3000
	if verifThorough() {
		iters = 30000
	}
	sizes := []int{0, 1, 2, 3, 5, 8, 13, 64, 1000, 4096, 5000}
	for it := 0; it < iters; it++ {
		initial := []int{0, 2, 4, 8, 4096}[rng.Intn(5)]
		n := 1 + rng.Intn(10)
		ops := make([]verifRingOp, n)
		for i := range ops {
			k := kinds[rng.Intn(len(kinds))]
			if k == "reset" && rng.Intn(4) != 0 {
				k = "write"
			}
			ops[i] = verifRingOp{k, sizes[rng.Intn(len(sizes))] - rng.Intn(2)}
			if ops[i].N < 0 && (k == "write" || k == "read") {
				ops[i].N = 0 // a negative length is not an input of Write/Read (make would panic in this harness)
			}
		}
		if m := verifRunRing(initial, ops); m != "" {
			verifWitness(t, "ring.New(%d) then %v: %s", initial, ops, m)
			return
		}
	}
}
