package elastic

// Model-based search for the mixed outbound buffer (ring + overflow list): every operation sequence is
// compared with an ideal FIFO byte queue (a []byte). Bounded stand-in (never counted as proof) and
// witness finder for the contracts of elastic.Buffer.

import (
	"bytes"
	"fmt"
	"math/rand"
	"testing"
)

type verifMixOp struct {
	Kind string
	N    []int
}

func verifRunMix(maxStatic int, ops []verifMixOp) (msg string) {
	defer func() {
		if e := recover(); e != nil {
			msg = fmt.Sprintf("panic: %v", e)
		}
	}()
	mb, err := New(maxStatic)
	if err != nil {
		return "New: " + err.Error()
	}
	var ref []byte
	next := byte(1)
	gen := func(n int) []byte {
		b := make([]byte, n)
		for i := range b {
			b[i] = next
			next++
		}
		return b
	}
	flat := func(bs [][]byte) []byte {
		var out []byte
		for _, b := range bs {
			out = append(out, b...)
		}
		return out
	}
	for i, op := range ops {
		switch op.Kind {
		case "write":
			p := gen(op.N[0])
			n, _ := mb.Write(p)
			if n != len(p) {
				return fmt.Sprintf("op %d Write(%d) returned %d", i, len(p), n)
			}
			ref = append(ref, p...)
		case "writev":
			var bs [][]byte
			tot := 0
			for _, k := range op.N {
				b := gen(k)
				bs = append(bs, b)
				tot += k
				ref = append(ref, b...)
			}
			n, _ := mb.Writev(bs)
			if n != tot {
				return fmt.Sprintf("op %d Writev(%v) returned %d", i, op.N, n)
			}
		case "read":
			p := make([]byte, op.N[0])
			n, _ := mb.Read(p)
			want := op.N[0]
			if want > len(ref) {
				want = len(ref)
			}
			if n != want || !bytes.Equal(p[:n], ref[:want]) {
				return fmt.Sprintf("op %d Read(%d) = %d %v, want %d %v", i, op.N[0], n, verifHead(p[:n]), want, verifHead(ref[:want]))
			}
			ref = ref[want:]
		case "discard":
			n, _ := mb.Discard(op.N[0])
			want := op.N[0]
			if want < 0 {
				want = 0
			}
			if want > len(ref) {
				want = len(ref)
			}
			if n != want {
				return fmt.Sprintf("op %d Discard(%d) = %d want %d", i, op.N[0], n, want)
			}
			ref = ref[want:]
		case "peek":
			got := flat(mb.Peek(op.N[0]))
			atLeast := op.N[0]
			if atLeast <= 0 || atLeast > len(ref) {
				atLeast = len(ref)
			}
			if len(got) < atLeast || len(got) > len(ref) || !bytes.Equal(got, ref[:len(got)]) {
				return fmt.Sprintf("op %d Peek(%d) = %d bytes %v, want at least %d bytes, a prefix of the queue %v", i, op.N[0], len(got), verifHead(got), atLeast, verifHead(ref))
			}
		case "reset":
			mb.Reset(0)
			ref = nil
		}
		got := flat(mb.Peek(-1))
		if !bytes.Equal(got, ref) {
			return fmt.Sprintf("after op %d (%s %v): Peek(-1) has %d bytes %v, want %d bytes %v", i, op.Kind, op.N, len(got), verifHead(got), len(ref), verifHead(ref))
		}
		if mb.Buffered() != len(ref) || mb.IsEmpty() != (len(ref) == 0) {
			return fmt.Sprintf("after op %d (%s %v): Buffered=%d IsEmpty=%v, want length %d", i, op.Kind, op.N, mb.Buffered(), mb.IsEmpty(), len(ref))
		}
	}
	return ""
}

func verifHead(b []byte) []byte {
	if len(b) > 8 {
		return b[:8]
	}
	return b
}

func TestVerifSearch_Mixed(t *testing.T) {
	// directed: fill the ring to its static limit, spill into the list, drain partially, write again
	for _, ms := range []int{1, 8, 64} {
		for _, ops := range [][]verifMixOp{
			{{"write", []int{ms}}, {"write", []int{3}}, {"discard", []int{ms - 1}}, {"write", []int{2}}, {"read", []int{ms + 5}}},
			{{"writev", []int{ms - 1, 3, 0, 2}}, {"discard", []int{ms}}, {"writev", []int{1, 1}}, {"peek", []int{2}}, {"discard", []int{100}}},
			{{"write", []int{ms + 2}}, {"write", []int{1}}, {"discard", []int{1}}, {"write", []int{1}}, {"peek", []int{ms + 3}}},
		} {
			if m := verifRunMix(ms, ops); m != "" {
				verifWitness(t, "elastic.New(%d) then %v: %s", ms, ops, m)
				return
			}
		}
	}
	rng := rand.New(rand.NewSource(verifSeed()))
	kinds := []string{"write", "write", "writev", "writev", "read", "discard", "discard", "peek", "reset"}
	iters := 3000
	if verifThorough() {
		iters = 40000
	}
	sizes := []int{0, 1, 2, 3, 5, 8, 13, 64, 100, 1000, 4096, 5000}
	for it := 0; it < iters; it++ {
		ms := []int{1, 2, 8, 64, 1024, 4096}[rng.Intn(6)]
		n := 1 + rng.Intn(12)
		ops := make([]verifMixOp, n)
		for i := range ops {
			k := kinds[rng.Intn(len(kinds))]
			if k == "reset" && rng.Intn(4) != 0 {
				k = "write"
			}
			sz := func() int {
				s := sizes[rng.Intn(len(sizes))]
				if rng.Intn(2) == 0 {
					s = ms + rng.Intn(5) - 2
				}
				if s < 0 {
					s = 0
				}
				return s
			}
			switch k {
			case "writev":
				var ns []int
				for j := 1 + rng.Intn(4); j > 0; j-- {
					ns = append(ns, sz())
				}
				ops[i] = verifMixOp{k, ns}
			case "discard", "peek":
				ops[i] = verifMixOp{k, []int{sz() - rng.Intn(2)}}
			default:
				ops[i] = verifMixOp{k, []int{sz()}}
			}
		}
		if m := verifRunMix(ms, ops); m != "" {
			verifWitness(t, "elastic.New(%d) then %v: %s", ms, ops, m)
			return
		}
	}
}
