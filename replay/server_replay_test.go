package server

// Search harness for route(): builds a topology through the exported surface (reflection is only
// used to obtain the unexported *replicaset type) and compares route() with the property's rules.

import (
	"fmt"
	"os"
	"path/filepath"
	"reflect"
	"strings"
	"testing"

	"rcproxy/core"
	"rcproxy/core/authip"
	"rcproxy/core/codec"
)

func verifTopology(slot int32, master string, replicas []string, banned map[string]bool, missing map[string]bool) {
	core.EngineGlobal = &core.Engine{ProxyPool: map[string]*core.Pool{}}
	arr := reflect.ValueOf(&core.EngineGlobal.Slots2Node).Elem()
	rsType := arr.Type().Elem().Elem()
	rs := reflect.New(rsType)
	rs.Elem().FieldByName("Master").Set(reflect.ValueOf(&core.ClusterNode{Addr: master, Role: core.Master}))
	var sl []*core.ClusterNode
	for _, r := range replicas {
		sl = append(sl, &core.ClusterNode{Addr: r, Role: core.Slave})
		if !missing[r] {
			core.EngineGlobal.ProxyPool[r] = &core.Pool{Addr: r, AutoBanFlag: banned[r]}
		}
	}
	rs.Elem().FieldByName("Slaves").Set(reflect.ValueOf(sl))
	arr.Index(int(slot)).Set(rs)
	core.EngineGlobal.ProxyPool[master] = &core.Pool{Addr: master}
}

func TestVerifSearch_Route(t *testing.T) {
	slot := int32(77)
	replicas := []string{"r1:1", "r2:1", "r3:1", "r4:1"}
	type tc struct {
		disable bool
		typ     codec.Command
		banned  map[string]bool
		missing map[string]bool
	}
	cases := []tc{
		{false, codec.ReqGet, nil, nil},
		{false, codec.ReqMget, map[string]bool{"r1:1": true}, nil},
		{false, codec.ReqGet, map[string]bool{"r2:1": true}, map[string]bool{"r1:1": true}},
		{false, codec.ReqHscan, nil, nil},
		{false, codec.ReqSscan, nil, nil},
		{false, codec.ReqZscan, nil, nil},
		{false, codec.ReqSet, nil, nil},
		{false, codec.ReqDel, nil, nil},
		{false, codec.ReqEval, nil, nil},
		{true, codec.ReqGet, nil, nil},
		{false, codec.ReqZscore, map[string]bool{"r1:1": true, "r2:1": true, "r3:1": true, "r4:1": true}, nil},
	}
	for _, c := range cases {
		ls := &listenServer{Options: &Options{DisableSlave: c.disable}}
		masterOnly := c.disable || c.typ > codec.ReqWriteCmdStart || c.typ == codec.ReqHscan || c.typ == codec.ReqSscan || c.typ == codec.ReqZscan
		healthy := map[string]bool{}
		for _, r := range replicas {
			if !c.banned[r] && !c.missing[r] {
				healthy[r] = true
			}
		}
		seen := map[string]int{}
		for i := 0; i < 4000; i++ {
			verifTopology(slot, "m:1", replicas, c.banned, c.missing)
			addr, isSlave := ls.route(&core.Msg{Type: c.typ}, slot)
			seen[addr]++
			if masterOnly && (isSlave || addr != "m:1") {
				verifWitness(t, "route(type=%d, disableSlave=%v) returned %s (replica=%v); writes, scans, scripts and disabled replica reads must go to the master", c.typ, c.disable, addr, isSlave)
				return
			}
			if isSlave && !healthy[addr] {
				verifWitness(t, "route(type=%d) returned %s which is not a healthy replica of the owning master", c.typ, addr)
				return
			}
			if !isSlave && addr != "m:1" {
				verifWitness(t, "route(type=%d) returned %s as master", c.typ, addr)
				return
			}
		}
		if !masterOnly {
			for r := range healthy {
				if seen[r] == 0 {
					verifWitness(t, "route(type=%d, banned=%v, missing=%v): healthy replica %s was never chosen in 4000 reads (distribution %s)", c.typ, c.banned, c.missing, r, fmt.Sprint(seen))
					return
				}
			}
		}
	}
}

// ---- OnCReact: an error reply must not leave fragments of the request on backend queues ----

type verifSConn struct {
	core.SConn
	queued []*core.Frag
}

func (s *verifSConn) EnqueueOutFrag(f *core.Frag) { s.queued = append(s.queued, f) }
func (s *verifSConn) IsOpened() bool               { return true }
func (s *verifSConn) Fd() int                      { return 9 }

type verifCConn struct {
	core.CConn
	in []*core.Msg
}

func (c *verifCConn) Fd() int                 { return 7 }
func (c *verifCConn) EnqueueInMsg(m *core.Msg) { c.in = append(c.in, m) }

// TestVerifSearch_OnCReactRecycle: a two-slot request whose second slot cannot be served. Whatever order the
// fragments are visited in, a non-nil reply (after which the event loop recycles the request) must come with no
// fragment of the request left on a backend queue, and a nil reply with every fragment queued and the request
// on the client's queue.
func TestVerifSearch_OnCReactRecycle(t *testing.T) {
	type fault struct {
		name string
		prep func()
	}
	faults := []fault{
		{"slot without an owner", func() {}},
		{"owner without a pool", func() {
			verifAddSlot(200, "m2:1")
			delete(core.EngineGlobal.ProxyPool, "m2:1")
		}},
		{"owner whose dial fails", func() {
			verifAddSlot(200, "m3:1")
			core.EngineGlobal.ProxyPool["m3:1"] = &core.Pool{Addr: "m3:1", Dial: func(string, bool) (core.SConn, error) { return nil, fmt.Errorf("refused") }}
		}},
	}
	for _, fl := range faults {
		for i := 0; i < 64; i++ {
			back := &verifSConn{}
			verifTopology(100, "m:1", nil, nil, nil)
			core.EngineGlobal.ProxyPool["m:1"] = &core.Pool{Addr: "m:1", Dial: func(string, bool) (core.SConn, error) { return back, nil }}
			fl.prep()
			ls := &listenServer{Options: &Options{DisableSlave: true}}
			r := &core.Msg{Type: codec.ReqMget, Body: map[int32]*core.Frag{100: {Key: "a"}, 200: {Key: "b"}}}
			cc := &verifCConn{}
			out, _ := ls.OnCReact(r, cc)
			if out != nil && len(back.queued) > 0 {
				verifWitness(t, "OnCReact(MGET over slots 100 and 200; %s) answered %q, after which the event loop recycles the request, but had already queued %d fragment(s) of it on a backend connection", fl.name, out, len(back.queued))
				return
			}
			if out == nil && (len(cc.in) != 1 || len(back.queued) == 0) {
				verifWitness(t, "OnCReact(%s) returned no reply but queued request=%d fragments=%d", fl.name, len(cc.in), len(back.queued))
				return
			}
		}
	}
}

func verifAddSlot(slot int32, master string) {
	arr := reflect.ValueOf(&core.EngineGlobal.Slots2Node).Elem()
	rs := reflect.New(arr.Type().Elem().Elem())
	rs.Elem().FieldByName("Master").Set(reflect.ValueOf(&core.ClusterNode{Addr: master, Role: core.Master}))
	arr.Index(int(slot)).Set(rs)
}

// ---- OnMoved: redirects ----

type verifOwner struct {
	core.CConn
	open bool
}

func (c *verifOwner) Fd() int        { return 7 }
func (c *verifOwner) IsOpened() bool { return c.open }

func (s *verifSConn) RemoteAddr() string { return "old:1" }

// TestVerifSearch_OnMoved: (1) an ASK redirect must reach the named node preceded by ASKING; (2) a redirect to a
// node without a pool, or whose dial fails, must still resolve the request (error reply or client closed).
func TestVerifSearch_OnMoved(t *testing.T) {
	ls := &listenServer{Options: &Options{}}
	mk := func(typ codec.Command) (*core.Frag, *verifOwner) {
		o := &verifOwner{open: true}
		m := &core.Msg{Type: codec.ReqGet, Fd2Slot: map[int]int32{}}
		f := &core.Frag{Owner: o, Peer: m, Type: typ, Req: []byte("*2\r\n$3\r\nget\r\n$1\r\nk\r\n"), RspBody: []byte("-ASK 5 m:1\r\n")}
		m.Body = map[int32]*core.Frag{5: f}
		return f, o
	}
	// (1)
	back := &verifSConn{}
	verifTopology(5, "m:1", nil, nil, nil)
	core.EngineGlobal.ProxyPool["m:1"] = &core.Pool{Addr: "m:1", Dial: func(string, bool) (core.SConn, error) { return back, nil }}
	f, _ := mk(codec.RspAsk)
	ls.OnMoved("m:1", 5, &verifSConn{}, f)
	if len(back.queued) == 1 && !strings.HasPrefix(string(back.queued[0].Req), "*1\r\n$6\r\nASKING\r\n") {
		verifWitness(t, "OnMoved(ASK to known node m:1): the fragment is re-sent as %q without a preceding ASKING, so the importing node answers -MOVED again", back.queued[0].Req)
	}
	// (2)
	for _, c := range []struct {
		name string
		prep func()
	}{
		{"node without a pool", func() {}},
		{"node whose dial fails", func() {
			core.EngineGlobal.ProxyPool["gone:1"] = &core.Pool{Addr: "gone:1", Dial: func(string, bool) (core.SConn, error) { return nil, fmt.Errorf("refused") }}
		}},
	} {
		verifTopology(5, "m:1", nil, nil, nil)
		c.prep()
		f, o := mk(codec.RspMoved)
		ls.OnMoved("gone:1", 5, &verifSConn{}, f)
		if !f.Done && !f.Peer.Done && o.open {
			verifWitness(t, "OnMoved(redirect to gone:1, %s): the fragment is dropped; the request is neither answered nor its client closed, so the client waits forever", c.name)
			return
		}
	}
}

// ---- OnSClosed: a backend connection closes with a request awaiting its reply ----
func (s *verifSConn) DequeueInFrag() *core.Frag {
	if len(s.queued) == 0 {
		return nil
	}
	f := s.queued[0]
	s.queued = s.queued[1:]
	return f
}
func (s *verifSConn) LocalAddr() string { return "proxy:1" }

func TestVerifSearch_OnSClosed(t *testing.T) {
	ls := &listenServer{Options: &Options{}}
	o := &verifOwner{open: true}
	m := &core.Msg{Type: codec.ReqGet}
	f := &core.Frag{Owner: o, Peer: m, Type: codec.ReqGet, Req: []byte("*2\r\n$3\r\nget\r\n$1\r\nk\r\n")}
	m.Body = map[int32]*core.Frag{5: f}
	s := &verifSConn{queued: []*core.Frag{f}} // written to the backend, reply outstanding
	ls.OnSClosed(s, fmt.Errorf("connection reset by peer"))
	if !f.Done && !m.Done && o.open && len(m.RspBody) == 0 {
		verifWitness(t, "backend connection lost with GET k written and its reply outstanding: OnSClosed only logs; the request is neither completed with an error nor is its client closed, so (without a request timeout) the client waits forever")
	}
}

// ---- OnCOpened: admission by source address ----
type verifClientAddr struct {
	core.CConn
	remote string
}

func (c *verifClientAddr) Fd() int            { return 7 }
func (c *verifClientAddr) RemoteAddr() string { return c.remote }
func (c *verifClientAddr) LocalAddr() string  { return "proxy:1" }

func TestVerifSearch_OnCOpened(t *testing.T) {
	dir := t.TempDir()
	if err := os.WriteFile(filepath.Join(dir, "auth.yml"), []byte("enable: true\nip_white_list:\n  - \"127.0.0.1\"\n  - \"::1\"\n  - \"fe80::1\"\n"), 0o644); err != nil {
		t.Fatal(err)
	}
	if err := authip.LoopIPWhiteList(dir, "auth.yml"); err != nil {
		t.Fatal(err)
	}
	ls := &listenServer{Options: &Options{}}
	for _, c := range []struct {
		remote string
		listed bool
	}{
		{"127.0.0.1:5000", true}, {"127.0.0.2:5000", false}, {"[::1]:5000", true}, {"[fe80::1]:5000", true}, {"[fe80::2]:5000", false},
	} {
		_, action := ls.OnCOpened(&verifClientAddr{remote: c.remote})
		if c.listed && action == core.Close {
			verifWitness(t, "whitelist enabled with 127.0.0.1, ::1, fe80::1: a connection from %s (listed) is closed at admission", c.remote)
			return
		}
		if !c.listed && action != core.Close {
			verifWitness(t, "whitelist enabled: a connection from %s (not listed) is admitted", c.remote)
			return
		}
	}
}
