package hashkit

// Reference key-slot function written from the Redis Cluster specification (keyHashSlot and the
// CRC16 appendix), used only to replay counterexamples and to search for a concrete failing key.

import (
	"math/rand"
	"testing"
)

func refCRC16(b []byte) uint16 {
	var crc uint16
	for _, c := range b {
		crc ^= uint16(c) << 8
		for i := 0; i < 8; i++ {
			if crc&0x8000 != 0 {
				crc = crc<<1 ^ 0x1021
			} else {
				crc <<= 1
			}
		}
	}
	return crc
}

func refKeyslot(key string) int32 {
	k := []byte(key)
	s := 0
	for s = 0; s < len(k); s++ {
		if k[s] == '{' {
			break
		}
	}
	if s == len(k) {
		return int32(refCRC16(k) & 16383)
	}
	e := 0
	for e = s + 1; e < len(k); e++ {
		if k[e] == '}' {
			break
		}
	}
	if e == len(k) || e == s+1 {
		return int32(refCRC16(k) & 16383)
	}
	return int32(refCRC16(k[s+1:e]) & 16383)
}

func TestVerifRefVector(t *testing.T) {
	if refCRC16([]byte("123456789")) != 0x31C3 {
		t.Fatalf("reference CRC16 does not reproduce the specification's test vector")
	}
}

func verifCheckKey(t *testing.T, key string) bool {
	got, want := func() (r int32) {
		defer func() {
			if e := recover(); e != nil {
				r = -1
			}
		}()
		return Hash(key)
	}(), refKeyslot(key)
	if got != want {
		verifWitness(t, "Hash(%q) = %d, Redis Cluster key slot = %d", key, got, want)
		return false
	}
	return true
}

func TestVerifReplay_Hash(t *testing.T) {
	r := verifLoadReplay(t)
	key, ok := r.verifModelString("p_key")
	if !ok {
		t.Skip("no usable model")
	}
	verifCheckKey(t, key)
}

func TestVerifSearch_Hash(t *testing.T) {
	if refCRC16([]byte("123456789")) != 0x31C3 {
		t.Skip("reference broken")
	}
	alpha := []byte{'{', '}', 'a', 'b', 0x00, 0xff}
	maxLen := 5
	if verifThorough() {
		maxLen = 6
	}
	var rec func(prefix []byte) bool
	rec = func(prefix []byte) bool {
		if !verifCheckKey(t, string(prefix)) {
			return false
		}
		if len(prefix) == maxLen {
			return true
		}
		for _, c := range alpha {
			if !rec(append(prefix, c)) {
				return false
			}
		}
		return true
	}
	if !rec(nil) {
		return
	}
	rng := rand.New(rand.NewSource(verifSeed()))
	for i := 0; i < 20000; i++ {
		n := rng.Intn(40)
		k := make([]byte, n)
		for j := range k {
			switch rng.Intn(4) {
			case 0:
				k[j] = '{'
			case 1:
				k[j] = '}'
			default:
				k[j] = byte(rng.Intn(256))
			}
		}
		if !verifCheckKey(t, string(k)) {
			return
		}
	}
}
