package authip

// Search harness: histories of whitelist file contents; after every reload the admitted set must equal
// the file's list when the whitelist is enabled, and everyone is admitted when it is disabled.

import (
	"fmt"
	"math/rand"
	"os"
	"path/filepath"
	"strings"
	"testing"
)

func TestVerifSearch_AuthIp(t *testing.T) {
	dir := t.TempDir()
	name := filepath.Join(dir, "authip.yaml")
	universe := []string{"1.2.3.4", "1.2.3.40", "2.3.4", "10.0.0.1", "::1", "1.2.3.4 "}
	type step struct {
		enableLine string // "enable: true", "enable: false", "" (key absent)
		list       []string
		broken     bool
	}
	rng := rand.New(rand.NewSource(verifSeed()))
	histories := 300
	if verifThorough() {
		histories = 5000
	}
	directed := [][]step{
		{{"enable: true", []string{"1.2.3.4"}, false}, {"enable: true", nil, false}},
		{{"enable: true", []string{"1.2.3.4", "10.0.0.1"}, false}, {"enable: true", []string{"10.0.0.1"}, false}},
		{{"enable: true", []string{"1.2.3.4"}, false}, {"", []string{"1.2.3.4"}, false}},
		{{"enable: true", []string{"1.2.3.4"}, false}, {"enable: false", nil, false}, {"enable: true", []string{"10.0.0.1"}, false}},
		{{"enable: true", []string{"1.2.3.4"}, false}, {"enable: true", nil, true}, {"enable: true", []string{"::1"}, false}},
	}
	for h := 0; h < histories+len(directed); h++ {
		var hist []step
		if h < len(directed) {
			hist = directed[h]
		} else {
			for n := 1 + rng.Intn(5); n > 0; n-- {
				var l []string
				for _, u := range universe {
					if rng.Intn(3) == 0 {
						l = append(l, u)
					}
				}
				hist = append(hist, step{[]string{"enable: true", "enable: true", "enable: false", ""}[rng.Intn(4)], l, rng.Intn(8) == 0})
			}
		}
		// fresh state: empty the live map through its own API (zeroing the variable would race with the
		// library's background grow goroutine of the previous history)
		for IpMap.Len() > 0 {
			var keys []interface{}
			for kv := range IpMap.Iter() {
				keys = append(keys, kv.Key)
			}
			for _, k := range keys {
				IpMap.Del(k)
			}
		}
		IpMap.enable = false
		a := &AuthIp{path: dir, name: name}
		wantEnable, want := false, map[string]bool{}
		var trace []string
		for _, st := range hist {
			var sb strings.Builder
			if st.enableLine != "" {
				sb.WriteString(st.enableLine + "\n")
			}
			sb.WriteString("ip_white_list:\n")
			for _, ip := range st.list {
				sb.WriteString(fmt.Sprintf("  - %q\n", ip))
			}
			content := sb.String()
			if st.broken {
				content = "enable: [unterminated\n"
			}
			os.WriteFile(name, []byte(content), 0o644)
			err := a.parseAuthIp()
			trace = append(trace, strings.ReplaceAll(content, "\n", "\\n"))
			if st.broken {
				if err == nil {
					verifWitness(t, "history %v: invalid YAML accepted", trace)
					return
				}
			} else {
				if err != nil {
					verifWitness(t, "history %v: reload failed: %v", trace, err)
					return
				}
				wantEnable = st.enableLine == "enable: true"
				if wantEnable {
					want = map[string]bool{}
					for _, ip := range st.list {
						want[ip] = true
					}
				}
			}
			for _, u := range append(universe, "9.9.9.9") {
				got := IpMap.Validate(u)
				exp := !wantEnable || want[u]
				if got != exp {
					verifWitness(t, "after the reload history %v: Validate(%q) = %v, the file admits it: %v", trace, u, got, exp)
					return
				}
			}
		}
	}
}
