package authip

// Search harness: histories of whitelist file contents; after every reload the admitted set must equal
// the file's list when the whitelist is enabled, and everyone is admitted when it is disabled.

import (
	"fmt"
	"math/rand"
	"os"
	"path/filepath"
	"reflect"
	"runtime"
	"strings"
	"testing"
	"time"
)

func TestVerifSearch_AuthIp(t *testing.T) {
	dir := t.TempDir()
	name := filepath.Join(dir, "authip.yaml")
	universe := []string{"1.2.3.4", "1.2.3.40", "2.3.4", "10.0.0.1", "::1", "1.2.3.4 "}
	type step struct {
		enableLine string // "enable: true", "enable: false", "" (key absent)
		list       []string
		broken     bool
	}
	rng := rand.New(rand.NewSource(verifSeed()))
	histories := 300
	if verifThorough() {
		histories = 5000
	}
	directed := [][]step{
		{{"enable: true", []string{"1.2.3.4"}, false}, {"enable: true", nil, false}},
		{{"enable: true", []string{"1.2.3.4", "10.0.0.1"}, false}, {"enable: true", []string{"10.0.0.1"}, false}},
		{{"enable: true", []string{"1.2.3.4"}, false}, {"", []string{"1.2.3.4"}, false}},
		{{"enable: true", []string{"1.2.3.4"}, false}, {"enable: false", nil, false}, {"enable: true", []string{"10.0.0.1"}, false}},
		{{"enable: true", []string{"1.2.3.4"}, false}, {"enable: true", nil, true}, {"enable: true", []string{"::1"}, false}},
	}
	for h := 0; h < histories+len(directed); h++ {
		var hist []step
		if h < len(directed) {
			hist = directed[h]
		} else {
			for n := 1 + rng.Intn(5); n > 0; n-- {
				var l []string
				for _, u := range universe {
					if rng.Intn(3) == 0 {
						l = append(l, u)
					}
				}
				hist = append(hist, step{[]string{"enable: true", "enable: true", "enable: false", ""}[rng.Intn(4)], l, rng.Intn(8) == 0})
			}
		}
		// fresh state: nothing published, whitelist off (no background goroutine touches the variable)
		IpMap = ipMap{}
		a := &AuthIp{path: dir, name: name}
		wantEnable, want := false, map[string]bool{}
		var trace []string
		for _, st := range hist {
			var sb strings.Builder
			if st.enableLine != "" {
				sb.WriteString(st.enableLine + "\n")
			}
			sb.WriteString("ip_white_list:\n")
			for _, ip := range st.list {
				sb.WriteString(fmt.Sprintf("  - %q\n", ip))
			}
			content := sb.String()
			if st.broken {
				content = "enable: [unterminated\n"
			}
			os.WriteFile(name, []byte(content), 0o644)
			err := a.parseAuthIp()
			trace = append(trace, strings.ReplaceAll(content, "\n", "\\n"))
			if st.broken {
				if err == nil {
					verifWitness(t, "history %v: invalid YAML accepted", trace)
					return
				}
			} else {
				if err != nil {
					verifWitness(t, "history %v: reload failed: %v", trace, err)
					return
				}
				wantEnable = st.enableLine == "enable: true"
				if wantEnable {
					want = map[string]bool{}
					for _, ip := range st.list {
						want[ip] = true
					}
				}
			}
			for _, u := range append(universe, "9.9.9.9") {
				got := IpMap.Validate(u)
				exp := !wantEnable || want[u]
				if got != exp {
					verifWitness(t, "after the reload history %v: Validate(%q) = %v, the file admits it: %v", trace, u, got, exp)
					return
				}
			}
		}
	}
}

// Witness for the rapid-reload defect (fixed): a reload listing n addresses followed at once by a reload
// listing none must leave nobody admitted. With the shared lock-free map of the original code a deletion
// racing with the map's background resize left deleted entries reachable through the new index (about one
// round in a thousand). Each round starts from a fresh variable; where the variable still embeds the
// lock-free map the round first waits for that map's resize goroutine to finish.
func TestVerifSearch_AuthIpRapidReload(t *testing.T) {
	dir := t.TempDir()
	name := filepath.Join(dir, "authip.yaml")
	idle := func() {
		hm := reflect.ValueOf(&IpMap).Elem().FieldByName("HashMap")
		if !hm.IsValid() {
			return
		}
		for hm.FieldByName("resizing").Uint() != 0 {
			runtime.Gosched()
		}
	}
	rounds := 1500
	if verifThorough() {
		rounds = 6000
	}
	for round := 0; round < rounds; round++ {
		idle()
		IpMap = ipMap{}
		a := &AuthIp{path: dir, name: name}
		n := 4 + round%8
		var l string
		for i := 0; i < n; i++ {
			l += fmt.Sprintf("  - \"10.0.0.%d\"\n", i)
		}
		os.WriteFile(name, []byte("enable: true\nip_white_list:\n"+l), 0o644)
		if err := a.parseAuthIp(); err != nil {
			t.Fatal(err)
		}
		os.WriteFile(name, []byte("enable: true\nip_white_list:\n"), 0o644)
		if err := a.parseAuthIp(); err != nil {
			t.Fatal(err)
		}
		idle()
		for i := 0; i < n; i++ {
			ip := fmt.Sprintf("10.0.0.%d", i)
			if IpMap.Validate(ip) {
				verifWitness(t, "round %d: reload listing %d addresses, then at once a reload listing none: Validate(%q) = true", round, n, ip)
				return
			}
		}
	}
}

// Bounded stand-in for the part of C18 no contract reaches (the watcher goroutine and fsnotify): a real
// watcher on a temporary directory, a history of edits of every kind the property names (in-place write,
// rewrite by rename, remove and re-create, enable/disable), and after each edit the admitted set must
// become the file's within the deadline.
func TestVerifSearch_AuthIpWatcher(t *testing.T) {
	dir := t.TempDir()
	name := "authip.yaml"
	full := filepath.Join(dir, name)
	universe := []string{"10.0.0.1", "10.0.0.2", "::1", "fe80::1%eth0"}
	content := func(enable bool, list []string) string {
		s := fmt.Sprintf("enable: %v\nip_white_list:\n", enable)
		for _, ip := range list {
			s += fmt.Sprintf("  - %q\n", ip)
		}
		return s
	}
	os.WriteFile(full, []byte(content(true, []string{"10.0.0.1"})), 0o644)
	IpMap = ipMap{}
	if err := LoopIPWhiteList(dir, name); err != nil {
		// no inotify instance to be had in this environment: nothing to exercise (the dispatch itself is under contract)
		t.Skipf("watcher not available: %v", err)
	}
	rng := rand.New(rand.NewSource(verifSeed()))
	steps := 8
	if verifThorough() {
		steps = 40
	}
	kinds := []string{"write in place", "rewrite by rename", "remove and re-create"}
	var trace []string
	for s := 0; s < steps; s++ {
		enable := rng.Intn(4) != 0
		var list []string
		for _, u := range universe {
			if rng.Intn(2) == 0 {
				list = append(list, u)
			}
		}
		kind := kinds[s%len(kinds)]
		if s >= len(kinds) {
			kind = kinds[rng.Intn(len(kinds))]
		}
		data := []byte(content(enable, list))
		switch kind {
		case "write in place":
			os.WriteFile(full, data, 0o644)
		case "rewrite by rename":
			tmp := filepath.Join(dir, ".authip.yaml.tmp")
			os.WriteFile(tmp, data, 0o644)
			os.Rename(tmp, full)
		case "remove and re-create":
			os.Remove(full)
			os.WriteFile(full, data, 0o644)
		}
		trace = append(trace, fmt.Sprintf("%s: enable=%v %v", kind, enable, list))
		want := map[string]bool{}
		for _, ip := range list {
			want[ip] = true
		}
		ok := func() bool {
			for _, u := range append(universe, "9.9.9.9") {
				if IpMap.Validate(u) != (!enable || want[u]) {
					return false
				}
			}
			return true
		}
		deadline := time.Now().Add(10 * time.Second)
		for !ok() && time.Now().Before(deadline) {
			time.Sleep(5 * time.Millisecond)
		}
		if !ok() {
			verifWitness(t, "watcher on %s, edits %q: 10 s after the last edit the admitted set is still not the file's (enable=%v, admitted %v)", full, trace, IpMap.enable, IpMap.List())
			return
		}
	}
}
