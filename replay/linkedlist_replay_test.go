package linkedlist

// Model-based search for the overflow list of byte chunks: every operation sequence is compared with an
// ideal byte queue (a []byte; PushFront prepends). Bounded stand-in (never counted as proof) and witness
// finder for the contracts of linkedlist.Buffer.

import (
	"bytes"
	"fmt"
	"math/rand"
	"testing"
)

type verifListOp struct {
	Kind string
	N    []int
}

func verifRunList(ops []verifListOp) (msg string) {
	defer func() {
		if e := recover(); e != nil {
			msg = fmt.Sprintf("panic: %v", e)
		}
	}()
	var llb Buffer
	var ref []byte
	chunks := 0 // only checked when it is certain
	_ = chunks
	next := byte(1)
	gen := func(n int) []byte {
		b := make([]byte, n)
		for i := range b {
			b[i] = next
			next++
		}
		return b
	}
	flat := func(bs [][]byte) []byte {
		var out []byte
		for _, b := range bs {
			out = append(out, b...)
		}
		return out
	}
	for i, op := range ops {
		switch op.Kind {
		case "pushback":
			p := gen(op.N[0])
			llb.PushBack(p)
			ref = append(ref, p...)
		case "pushfront":
			p := gen(op.N[0])
			llb.PushFront(p)
			ref = append(append([]byte{}, p...), ref...)
		case "read":
			p := make([]byte, op.N[0])
			n, _ := llb.Read(p)
			want := op.N[0]
			if want > len(ref) {
				want = len(ref)
			}
			if n != want || !bytes.Equal(p[:n], ref[:want]) {
				return fmt.Sprintf("op %d Read(%d) = %d %v, want %d %v", i, op.N[0], n, verifHead(p[:n]), want, verifHead(ref[:want]))
			}
			ref = ref[want:]
		case "discard":
			n, _ := llb.Discard(op.N[0])
			want := op.N[0]
			if want < 0 {
				want = 0
			}
			if want > len(ref) {
				want = len(ref)
			}
			if n != want {
				return fmt.Sprintf("op %d Discard(%d) = %d want %d", i, op.N[0], n, want)
			}
			ref = ref[want:]
		case "peek":
			got := flat(llb.Peek(op.N[0]))
			atLeast := op.N[0]
			if atLeast <= 0 || atLeast > len(ref) {
				atLeast = len(ref)
			}
			if len(got) < atLeast || len(got) > len(ref) || !bytes.Equal(got, ref[:len(got)]) {
				return fmt.Sprintf("op %d Peek(%d) = %d bytes %v, want at least %d bytes, a prefix of the queue %v", i, op.N[0], len(got), verifHead(got), atLeast, verifHead(ref))
			}
		case "peekwith":
			a, b := gen(op.N[1]), gen(op.N[2])
			got := flat(llb.PeekWithBytes(op.N[0], a, b))
			all := append(append(append([]byte{}, a...), b...), ref...)
			atLeast := op.N[0]
			if atLeast <= 0 || atLeast > len(all) {
				atLeast = len(all)
			}
			if len(got) < atLeast || len(got) > len(all) || !bytes.Equal(got, all[:len(got)]) {
				return fmt.Sprintf("op %d PeekWithBytes(%d, %d bytes, %d bytes) = %d bytes %v, want at least %d bytes, a prefix of %v", i, op.N[0], op.N[1], op.N[2], len(got), verifHead(got), atLeast, verifHead(all))
			}
		case "reset":
			llb.Reset()
			ref = nil
		}
		got := flat(llb.Peek(-1))
		if !bytes.Equal(got, ref) {
			return fmt.Sprintf("after op %d (%s %v): Peek(-1) has %d bytes %v, want %d bytes %v", i, op.Kind, op.N, len(got), verifHead(got), len(ref), verifHead(ref))
		}
		if llb.Buffered() != len(ref) || llb.IsEmpty() != (len(ref) == 0) || (llb.Len() == 0) != (len(ref) == 0) {
			return fmt.Sprintf("after op %d (%s %v): Buffered=%d Len=%d IsEmpty=%v, want %d bytes", i, op.Kind, op.N, llb.Buffered(), llb.Len(), llb.IsEmpty(), len(ref))
		}
	}
	return ""
}

func verifHead(b []byte) []byte {
	if len(b) > 8 {
		return b[:8]
	}
	return b
}

func TestVerifSearch_List(t *testing.T) {
	rng := rand.New(rand.NewSource(verifSeed()))
	kinds := []string{"pushback", "pushback", "pushback", "pushfront", "read", "discard", "discard", "peek", "peekwith", "reset"}
	iters := 3000
	if verifThorough() {
		iters = 40000
	}
	sizes := []int{0, 1, 2, 3, 5, 8, 13, 64, 100, 1000}
	for it := 0; it < iters; it++ {
		n := 1 + rng.Intn(12)
		ops := make([]verifListOp, n)
		for i := range ops {
			k := kinds[rng.Intn(len(kinds))]
			if k == "reset" && rng.Intn(4) != 0 {
				k = "pushback"
			}
			sz := func() int { return sizes[rng.Intn(len(sizes))] }
			switch k {
			case "peekwith":
				ops[i] = verifListOp{k, []int{sz() - rng.Intn(2), sz() % 14, sz() % 14}}
			case "discard", "peek":
				ops[i] = verifListOp{k, []int{sz() - rng.Intn(2)}}
			default:
				ops[i] = verifListOp{k, []int{sz()}}
			}
		}
		if m := verifRunList(ops); m != "" {
			verifWitness(t, "zero linkedlist.Buffer then %v: %s", ops, m)
			return
		}
	}
}
