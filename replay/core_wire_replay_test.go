package core

// Model-based search for the outbound wire path (conn.write, conn.writev, eventloop.write over the mixed outbound
// buffer): a non-blocking socket pair with a small send buffer and a slow reader. Whatever sequence of writes,
// vectored writes, flushes and peer reads happens, the peer must receive exactly the bytes handed to write/writev,
// in order, nothing lost and nothing twice. Bounded stand-in (never counted as proof).

import (
	"bytes"
	"fmt"
	"math/rand"
	"testing"

	"golang.org/x/sys/unix"

	"rcproxy/core/internal/netpoll"
	"rcproxy/core/pkg/buffer/elastic"
)

func verifRunWire(rng *rand.Rand, maxStatic int, nops int) (msg string) {
	defer func() {
		if e := recover(); e != nil {
			msg = fmt.Sprintf("panic: %v", e)
		}
	}()
	eng := &engine{opts: &Options{}}
	el := &eventloop{engine: eng, connections: map[int]*conn{}}
	eng.el = el
	eng.eventHandler = &BuiltinEventEngine{}
	el.eventHandler = eng.eventHandler
	p, err := netpoll.OpenPoller()
	if err != nil {
		return ""
	}
	defer p.Close()
	el.poller = p
	sp, err := unix.Socketpair(unix.AF_UNIX, unix.SOCK_STREAM, 0)
	if err != nil {
		return ""
	}
	defer unix.Close(sp[1])
	unix.SetNonblock(sp[0], true)
	unix.SetNonblock(sp[1], true)
	unix.SetsockoptInt(sp[0], unix.SOL_SOCKET, unix.SO_SNDBUF, 4096)
	unix.SetsockoptInt(sp[1], unix.SOL_SOCKET, unix.SO_RCVBUF, 4096)
	c := &conn{fd: sp[0], loop: el, connType: ConnClient, opened: true, initStatus: Initialized,
		inMsgQueue: &MsgQueue{}, inFragQueue: &FragQueue{}, outFragQueue: &FragQueue{}}
	c.outboundBuffer, _ = elastic.New(maxStatic)
	c.pollAttachment = netpoll.GetPollAttachment()
	c.pollAttachment.FD = sp[0]
	c.pollAttachment.Callback = func(int, uint32) error { return nil }
	if err := p.AddRead(c.pollAttachment); err != nil {
		return ""
	}
	el.connections[sp[0]] = c
	defer func() {
		if c.opened {
			unix.Close(sp[0])
		}
	}()
	var sent, got []byte
	next := byte(1)
	gen := func(n int) []byte {
		b := make([]byte, n)
		for i := range b {
			b[i] = next
			next++
			if next == 0 {
				next = 1
			}
		}
		return b
	}
	recv := func(max int) {
		buf := make([]byte, max)
		for max > 0 {
			n, err := unix.Read(sp[1], buf)
			if n <= 0 || err != nil {
				return
			}
			got = append(got, buf[:n]...)
			max -= n
			buf = buf[:max]
		}
	}
	check := func(when string) string {
		if len(got) > len(sent) || !bytes.Equal(got, sent[:len(got)]) {
			i := 0
			for i < len(got) && i < len(sent) && got[i] == sent[i] {
				i++
			}
			return fmt.Sprintf("%s: the peer has received %d bytes that are not a prefix of the %d bytes handed to write/writev (first difference at offset %d)", when, len(got), len(sent), i)
		}
		return ""
	}
	sizes := []int{0, 1, 2, 3, 7, 64, 100, 1000, 4096, 5000, 20000, 70000}
	var trace []string
	for i := 0; i < nops; i++ {
		if !c.opened {
			return fmt.Sprintf("after %v: the connection was closed by the write path", trace)
		}
		switch k := rng.Intn(6); k {
		case 0, 1:
			d := gen(sizes[rng.Intn(len(sizes))])
			trace = append(trace, fmt.Sprintf("write(%d)", len(d)))
			sent = append(sent, d...)
			if _, err := c.write(d); err != nil {
				return fmt.Sprintf("after %v: write returned %v", trace, err)
			}
		case 2:
			var bs [][]byte
			var ls []int
			for j := 1 + rng.Intn(4); j > 0; j-- {
				d := gen(sizes[rng.Intn(len(sizes))])
				bs = append(bs, d)
				ls = append(ls, len(d))
				sent = append(sent, d...)
			}
			trace = append(trace, fmt.Sprintf("writev(%v)", ls))
			if _, err := c.writev(bs); err != nil {
				return fmt.Sprintf("after %v: writev returned %v", trace, err)
			}
		case 3:
			trace = append(trace, "flush")
			if !c.outboundBuffer.IsEmpty() {
				if err := el.write(c); err != nil {
					return fmt.Sprintf("after %v: eventloop.write returned %v", trace, err)
				}
			}
		default:
			n := sizes[1+rng.Intn(len(sizes)-1)]
			trace = append(trace, fmt.Sprintf("peer reads <= %d", n))
			recv(n)
		}
		if m := check(fmt.Sprintf("after %v", trace)); m != "" {
			return m
		}
	}
	// drain: flush and read until nothing is pending
	for round := 0; round < 10000 && c.opened; round++ {
		recv(1 << 20)
		if c.outboundBuffer.IsEmpty() {
			break
		}
		if err := el.write(c); err != nil {
			return fmt.Sprintf("after %v, draining: eventloop.write returned %v", trace, err)
		}
	}
	recv(1 << 20)
	if m := check(fmt.Sprintf("after %v and a full drain", trace)); m != "" {
		return m
	}
	if len(got) != len(sent) {
		return fmt.Sprintf("after %v and a full drain: the peer received %d of the %d bytes handed to write/writev (outbound buffer reports %d pending)", trace, len(got), len(sent), c.outboundBuffer.Buffered())
	}
	return ""
}

func TestVerifSearch_Wire(t *testing.T) {
	rng := rand.New(rand.NewSource(verifSeed()))
	iters := 150
	if verifThorough() {
		iters = 2500
	}
	for it := 0; it < iters; it++ {
		ms := []int{1, 64, 1024, 4096, 1 << 16}[rng.Intn(5)]
		if m := verifRunWire(rng, ms, 1+rng.Intn(14)); m != "" {
			verifWitness(t, "elastic.New(%d), socket pair with a 4 KiB send buffer: %s", ms, m)
			return
		}
	}
}
